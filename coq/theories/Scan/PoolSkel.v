(* PoolSkel.v -- the tie between the hand-written transition system of Scan/Pool.v and the source of
   graph.Initialize: the translator extracts the goroutines of Initialize with every channel, wait-group
   and goroutine operation they perform (gen/Tables.v, pool_program, regenerated from /repo on every run);
   [pool_program_modelled] below is the program Pool.v was written against, statement by statement, with
   the transition of Pool.step that stands for it.  [pool_program_matches] is re-checked on every build:
   any change to the protocol (a channel's capacity, the order of the closes, a send moved after
   wg.Done(), a goroutine added or removed, an unknown call between two operations ...) breaks it.

   Correspondence of statements and transitions (Pool.v):
     Initialize   SErrReturn getFiles                 -- before [init]; no goroutine exists yet
                  SLen/SConst/SMake/SWaitGroup/SWgAdd -- [init]: capacities n n w n, w workers
                  SLoopN numWorkers [SGo worker]      -- [init]: w workers in Recv   (decision 1)
                  SForEach files [SSend fileChan]     -- step_m_send / step_m_sent_all
                  SClose fileChan                     -- step_m_close
                  SMake statusDone 0 ; SGo go#1       -- step_m_start_status
                  SGo go#2                            -- step_m_start_closer
                  SRange resultChan [hook]            -- step_m_collect / step_m_done
                  SRecv statusDone                    -- step_m_join   (enabled iff go#1 has returned:
                                                         statusDone is unbuffered, never sent on and
                                                         closed only by go#1's deferred close)
     worker       SRange fileChan                     -- step_w_recv / step_w_exit (closed and drained)
                  SSend statusChan                    -- step_w_status1
                  SErrContinue readFile, ParseCtx     -- step_w_read_ok / step_w_read_fail (decision 2)
                  SSend statusChan                    -- step_w_status2
                  SCall buildGraphFromAST             -- step_w_build   (total: C09_total)
                  SSend statusChan                    -- step_w_status3
                  SSend resultChan                    -- step_w_send_result
                  SSend progressChan                  -- step_w_send_progress
                  SWgDone                             -- step_w_exit
     go#1         SForever [SSelect ...]              -- step_g_status / step_g_progress /
                  SIfClosedReturn (both cases)           step_g_exit_status / step_g_exit_progress
                  SDeferClose statusDone              -- status := GExited
     go#2         SWgWait ; SClose x3                 -- step_c_wait / step_c_close_status /
                                                         step_c_close_progress *)
From CPF Require Import Base.Bytes Base.Skel.
From CPF.gen Require Import Tables.
From Coq Require Import List.
Import ListNotations.
Open Scope bs_scope.

(* canonical names (the translator numbers them in order of creation, so that renaming is harmless):
   c0 = fileChan (cap n0)   c1 = resultChan (cap n0)   c2 = statusChan (cap n1)   c3 = progressChan (cap n0)
   c4 = statusDone (unbuffered)   n0 = len(files)   n1 = numWorkers = 5   w0 = wg
   g0 = worker   g1 = status updater   g2 = closer *)
Definition pool_program_modelled : list (bytes * list pstmt) :=
  [("Initialize",
    [SErrReturn "getFiles";
     SLen "n0" "files";
     SConst "n1" "5";
     SMake "c0" "n0";
     SMake "c1" "n0";
     SMake "c2" "n1";
     SMake "c3" "n0";
     SWaitGroup "w0";
     SWgAdd "n1";
     SLoopN "n1" [SGo "g0"];
     SForEach "files" [SSend "c0"];
     SClose "c0";
     SMake "c4" "0";
     SGo "g1";
     SGo "g2";
     SRange "c1" [SHook "verifOnMerge"];
     SRecv "c4";
     SRet]);
   ("g0",
    [SRange "c0"
       [SHook "verifBeforeFile";
        SSend "c2";
        SErrContinue "readFile";
        SErrContinue "parser.ParseCtx";
        SSend "c2";
        SCall "buildGraphFromAST";
        SSend "c2";
        SSend "c1";
        SSend "c3"];
     SWgDone]);
   ("g1",
    [SDeferClose "c4";
     SForever
       [SSelect [("c2", [SIfClosedReturn]);
                 ("c3", [SIfClosedReturn])]]]);
   ("g2",
    [SWgWait;
     SClose "c1";
     SClose "c2";
     SClose "c3"])].

Lemma pool_program_matches : pool_program = pool_program_modelled.
Proof. reflexivity. Qed.

(* the number of workers the campaigns and the window characterisation of merge orders use *)
Lemma pool_workers_5 :
  In (SConst "n1" "5") (snd (hd ("", []) pool_program)).
Proof. rewrite pool_program_matches. cbn. tauto. Qed.
