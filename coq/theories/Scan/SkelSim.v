(* SkelSim.v -- the abstraction [abs] of Scan/SkelAbs.v is a simulation from the generic small-step
   semantics (Scan/SkelSem.v) of [pool_program_modelled] (= the program extracted from graph.Initialize,
   PoolSkel.pool_program_matches) onto the hand-written transition system Pool.step, for EVERY list of files
   and every failure assignment.  (Before, this was only explored for n <= 3 files.)

   Method: every reachable configuration is either one of the ten configurations of the sequential prologue
   ([pre j], j <= 8: only "Initialize" exists) or the concretisation [mk_sk M ws g1 g2 D] of a description:
   M the program counter of Initialize, ws the workers, g1 / g2 the optional status updater / closer and D
   the channel buffers and ghost lists.  Closed flags and the wait-group counter are FUNCTIONS of the
   description, so that the well-formedness predicate [wf] is small.  Each of the four kinds of goroutine
   has one lemma (step_main, step_worker, step_status, step_closer): a step of that goroutine from a
   well-formed description leads to a well-formed description whose abstraction is equal or one Pool.step
   away.  The guards of Pool.step are the semantics' own checks (capacities, closed flags, wait group).

   Section SimW proves everything for the program with an ARBITRARY literal v for numWorkers
   ([pool_prog_lit v], dec_val 0 v = Some w; theorems *_w), which covers the harness' small pools;
   Section Sim instantiates v = "5" and states the theorems for [pool_program_modelled] (and, by
   PoolSkel.pool_program_matches, for the extracted [pool_program]).

   Also proved: deadlock freedom under the generic semantics (a reachable configuration without
   successor is finished; uses PoolFacts' invariant for the never-blocking sends) and the transfer of
   PoolFacts' delivery / merge-order / quiescence theorems to the configurations of the program. *)
From CPF Require Import Base.Bytes Base.Skel Scan.SkelSem Scan.Pool Scan.PoolFacts Scan.PoolSkel Scan.SkelAbs.
From CPF.gen Require Import Tables.
From Coq Require Import List Arith Bool Lia.
Import ListNotations.
Open Scope bs_scope.

(* ---------------------------------------------------------------------- *)
(* The pieces of the program                                               *)
(* ---------------------------------------------------------------------- *)

(* the program with an arbitrary literal for numWorkers; the extracted program has "5" *)
Definition pool_prog_lit (v : bytes) : list (bytes * list pstmt) :=
  match pool_program_modelled with
  | (nm, e :: l :: _ :: rest) :: gs => (nm, e :: l :: SConst "n1" v :: rest) :: gs
  | p => p
  end.

Lemma pool_prog_lit_5 : pool_prog_lit "5" = pool_program_modelled.
Proof. reflexivity. Qed.

Definition MB : list pstmt :=        (* body of Initialize *)
  match pool_program_modelled with (_, b) :: _ => b | [] => [] end.
Definition WBODY : list pstmt := body_of pool_program_modelled "g0".
Definition WLOOP : list pstmt :=     (* body of the worker's range loop *)
  match WBODY with SRange _ b :: _ => b | _ => [] end.
Definition SBODY : list pstmt := body_of pool_program_modelled "g1".
Definition SSEL : list pstmt :=      (* body of the status updater's for-loop *)
  match SBODY with _ :: SForever b :: _ => b | _ => [] end.
Definition CBODY : list pstmt := body_of pool_program_modelled "g2".

(* program counters of Initialize from the spawn loop on *)
Inductive mpc : Type :=
| M_loop                       (* SLoopN .. *)
| M_times (k : nat)            (* loop head, k workers still to spawn *)
| M_go (k : nat)               (* about to [go worker], k more afterwards *)
| M_foreach
| M_each (rest : list nat)
| M_send (rest : list nat)     (* about to send g_cur *)
| M_close
| M_make4
| M_go1
| M_go2
| M_range
| M_krange
| M_hook
| M_join
| M_ret
| M_dead.

Definition mk_of (p : mpc) : list kitem :=
  match p with
  | M_loop => ks (skipn 9 MB)
  | M_times k => KTimes k [SGo "g0"] :: ks (skipn 10 MB)
  | M_go k => KS (SGo "g0") :: KTimes k [SGo "g0"] :: ks (skipn 10 MB)
  | M_foreach => ks (skipn 10 MB)
  | M_each rest => KEach rest [SSend "c0"] :: ks (skipn 11 MB)
  | M_send rest => KS (SSend "c0") :: KEach rest [SSend "c0"] :: ks (skipn 11 MB)
  | M_close => ks (skipn 11 MB)
  | M_make4 => ks (skipn 12 MB)
  | M_go1 => ks (skipn 13 MB)
  | M_go2 => ks (skipn 14 MB)
  | M_range => ks (skipn 15 MB)
  | M_krange => KRange "c1" [SHook "verifOnMerge"] :: ks (skipn 16 MB)
  | M_hook => KS (SHook "verifOnMerge") :: KRange "c1" [SHook "verifOnMerge"] :: ks (skipn 16 MB)
  | M_join => ks (skipn 16 MB)
  | M_ret => ks (skipn 17 MB)
  | M_dead => []
  end.

Definition mlive (p : mpc) : bool := match p with M_dead => false | _ => true end.

Definition mst : Type := (mpc * nat * bool)%type.     (* pc, g_cur, g_ok *)
Definition mgor (M : mst) : gor :=
  let '(p, c, o) := M in G "Initialize" (mk_of p) c o [] (mlive p).

Definition past_close_m (p : mpc) : bool :=
  match p with
  | M_loop | M_times _ | M_go _ | M_foreach | M_each _ | M_send _ | M_close => false
  | _ => true
  end.
Definition has_c4 (p : mpc) : bool :=
  match p with
  | M_loop | M_times _ | M_go _ | M_foreach | M_each _ | M_send _ | M_close | M_make4 => false
  | _ => true
  end.
Definition has_g1 (p : mpc) : bool :=
  match p with
  | M_loop | M_times _ | M_go _ | M_foreach | M_each _ | M_send _ | M_close | M_make4 | M_go1 => false
  | _ => true
  end.
Definition has_g2 (p : mpc) : bool :=
  match p with
  | M_loop | M_times _ | M_go _ | M_foreach | M_each _ | M_send _ | M_close | M_make4 | M_go1 | M_go2 => false
  | _ => true
  end.

(* program counters of a worker *)
Inductive wpc : Type :=
| W_start | W_range
| W_hook | W_s1 | W_rd | W_ps | W_s2 | W_bd | W_s3 | W_sr | W_sp
| W_done | W_end | W_dead.

Definition WTAIL : list kitem := [KRange "c0" WLOOP; KS SWgDone].
Definition wk_of (p : wpc) : list kitem :=
  match p with
  | W_start => ks WBODY
  | W_range => WTAIL
  | W_hook => ks (skipn 0 WLOOP) ++ WTAIL
  | W_s1 => ks (skipn 1 WLOOP) ++ WTAIL
  | W_rd => ks (skipn 2 WLOOP) ++ WTAIL
  | W_ps => ks (skipn 3 WLOOP) ++ WTAIL
  | W_s2 => ks (skipn 4 WLOOP) ++ WTAIL
  | W_bd => ks (skipn 5 WLOOP) ++ WTAIL
  | W_s3 => ks (skipn 6 WLOOP) ++ WTAIL
  | W_sr => ks (skipn 7 WLOOP) ++ WTAIL
  | W_sp => ks (skipn 8 WLOOP) ++ WTAIL
  | W_done => [KS SWgDone]
  | W_end => []
  | W_dead => []
  end.
Definition wlive (p : wpc) : bool := match p with W_dead => false | _ => true end.
(* has not executed wg.Done() yet *)
Definition wpend (p : wpc) : nat := match p with W_end | W_dead => 0 | _ => 1 end.

Definition wst : Type := (wpc * nat * bool)%type.
Definition wgor (x : wst) : gor :=
  let '(p, c, o) := x in G "g0" (wk_of p) c o [] (wlive p).
Definition wabs (x : wst) : wstate :=
  let '(p, c, _) := x in
  match p with
  | W_start | W_range => Recv
  | W_hook | W_s1 => Status1 c
  | W_rd | W_ps => Read c
  | W_s2 => Status2 c
  | W_bd => Build c
  | W_s3 => Status3 c
  | W_sr => SendResult c
  | W_sp => SendProgress c
  | W_done | W_end | W_dead => WExited
  end.
Definition pendings (ws : list wst) : nat := list_sum (map (fun x : wst => wpend (fst (fst x))) ws).

(* status updater *)
Inductive spc : Type := S_defer | S_forever | S_kforever | S_select | S_if | S_dead.
Definition sk_of (p : spc) : list kitem :=
  match p with
  | S_defer => ks SBODY
  | S_forever => ks (skipn 1 SBODY)
  | S_kforever => [KForever SSEL]
  | S_select => ks SSEL ++ [KForever SSEL]
  | S_if => [KS SIfClosedReturn; KForever SSEL]
  | S_dead => []
  end.
Definition slive (p : spc) : bool := match p with S_dead => false | _ => true end.
Definition sdefer (p : spc) : list bytes := match p with S_defer | S_dead => [] | _ => ["c4"] end.
Definition sst : Type := (spc * nat * bool)%type.
Definition sgor (x : sst) : gor :=
  let '(p, c, o) := x in G "g1" (sk_of p) c o (sdefer p) (slive p).
Definition sabs (g1 : option sst) : gstate :=
  match g1 with
  | None => GNotStarted
  | Some (S_dead, _, _) => GExited
  | Some _ => GRunning
  end.
Definition sdead (g1 : option sst) : bool :=
  match g1 with Some (S_dead, _, _) => true | _ => false end.
(* at [if !ok { return }] with ok = false *)
Definition sif_false (g1 : option sst) : bool :=
  match g1 with Some (S_if, _, false) => true | _ => false end.

(* closer *)
Inductive cpc : Type := C_wait | C_c1 | C_c2 | C_c3 | C_end | C_dead.
Definition ck_of (p : cpc) : list kitem :=
  match p with
  | C_wait => ks CBODY
  | C_c1 => ks (skipn 1 CBODY)
  | C_c2 => ks (skipn 2 CBODY)
  | C_c3 => ks (skipn 3 CBODY)
  | C_end => []
  | C_dead => []
  end.
Definition clive (p : cpc) : bool := match p with C_dead => false | _ => true end.
Definition cgor (p : cpc) : gor := G "g2" (ck_of p) 0 true [] (clive p).
Definition cabs (g2 : option cpc) : cstate :=
  match g2 with
  | None => CNotStarted
  | Some C_wait | Some C_c1 => CWaiting
  | Some C_c2 => CClosedR
  | Some C_c3 => CClosedRS
  | Some C_end | Some C_dead => CFired
  end.
Definition cpast (g2 : option cpc) : bool :=     (* wg.Wait() has returned *)
  match g2 with None | Some C_wait => false | _ => true end.
Definition fl1 (g2 : option cpc) : bool := rclosed_c (cabs g2).
Definition fl2 (g2 : option cpc) : bool := sclosed_c (cabs g2).
Definition fl3 (g2 : option cpc) : bool := pclosed_c (cabs g2).

Definition olist {A} (o : option A) : list A := match o with Some a => [a] | None => [] end.
Definition isnil {A} (l : list A) : bool := match l with [] => true | _ => false end.

Record data : Type := Dt {
  d_q0 : list nat; d_q1 : list nat; d_q2 : list nat; d_q3 : list nat;
  d_mg : list nat; d_skp : list nat }.

(* ---------------------------------------------------------------------- *)
(* Generic list facts                                                      *)
(* ---------------------------------------------------------------------- *)

Lemma nth_error_mid : forall (A : Type) (l1 : list A) x l2,
  nth_error (l1 ++ x :: l2) (length l1) = Some x.
Proof.
  intros. rewrite nth_error_app2 by lia. rewrite Nat.sub_diag. reflexivity.
Qed.

Lemma firstn_mid : forall (A : Type) (l1 : list A) x l2,
  firstn (length l1) (l1 ++ x :: l2) = l1.
Proof.
  intros. rewrite firstn_app, Nat.sub_diag, firstn_all. cbn. apply app_nil_r.
Qed.

Lemma skipn_mid : forall (A : Type) (l1 : list A) x l2,
  skipn (S (length l1)) (l1 ++ x :: l2) = l2.
Proof.
  intros A l1 x l2. induction l1 as [|a l1 IH]; [reflexivity | exact IH].
Qed.

Lemma set_gor_mid : forall pre g post ch sz wg mg skp p g',
  set_gor (SK (pre ++ g :: post) ch sz wg mg skp p) (length pre) g' = pre ++ g' :: post.
Proof.
  intros. unfold set_gor. cbn [s_gors]. rewrite firstn_mid, skipn_mid. reflexivity.
Qed.

Lemma list_sum_map_mid : forall (A : Type) (g : A -> nat) l1 x l2,
  list_sum (map g (l1 ++ x :: l2)) = list_sum (map g l1) + g x + list_sum (map g l2).
Proof.
  intros. rewrite map_app, list_sum_app.
  change (list_sum (map g (x :: l2))) with (g x + list_sum (map g l2)). lia.
Qed.

(* where is the element singled out by [pre ++ g :: post] in [l1 ++ l2] *)
Lemma app_split_cases : forall (A : Type) (l1 l2 pre : list A) g post,
  l1 ++ l2 = pre ++ g :: post ->
  (exists b, l1 = pre ++ g :: b /\ post = b ++ l2) \/
  (exists a, pre = l1 ++ a /\ l2 = a ++ g :: post).
Proof.
  intros A l1. induction l1 as [|x l1 IH]; intros l2 pre g post H.
  - right. exists pre. split; [reflexivity | exact H].
  - destruct pre as [|y pre].
    + cbn in H. injection H as H1 H2. subst. left. exists l1. split; reflexivity.
    + cbn in H. injection H as H1 H2. subst y. destruct (IH _ _ _ _ H2) as [[b [E1 E2]] | [a [E1 E2]]].
      * left. exists b. subst. split; reflexivity.
      * right. exists a. subst. split; reflexivity.
Qed.

Lemma in_sk_steps : forall prog files fails s s',
  In s' (sk_steps prog files fails s) ->
  exists pre g post, s_gors s = pre ++ g :: post /\ In s' (gstep prog files fails s (length pre)).
Proof.
  intros prog files fails s s' H. unfold sk_steps in H. apply in_flat_map in H.
  destruct H as [i [Hi Hs]]. apply in_seq in Hi.
  assert (Hlt : i < length (s_gors s)) by lia.
  destruct (nth_split (s_gors s) (G [] [] 0 true [] true) Hlt) as [l1 [l2 [E L]]].
  exists l1, (nth i (s_gors s) (G [] [] 0 true [] true)), l2. split; [exact E|]. rewrite L. exact Hs.
Qed.

Lemma sk_steps_intro : forall prog files fails s s' pre g post,
  s_gors s = pre ++ g :: post -> In s' (gstep prog files fails s (length pre)) ->
  In s' (sk_steps prog files fails s).
Proof.
  intros prog files fails s s' pre g post E H. unfold sk_steps. apply in_flat_map.
  exists (length pre). split; [|exact H]. apply in_seq. rewrite E, app_length. cbn. lia.
Qed.

Local Arguments set_gor : simpl never.
Local Arguments Nat.ltb : simpl never.
Local Arguments Nat.eqb : simpl never.

Section SimW.
  Variable v : bytes.                        (* the literal *)
  Variable w : nat.                          (* its value: the number of workers *)
  Hypothesis Hv : dec_val 0 v = Some w.
  Variable files : list nat.
  Variable fails : bytes -> nat -> bool.

  (* number of workers spawned so far *)
  Definition nworkers (p : mpc) (k : nat) : Prop :=
    match p with
    | M_loop => k = 0
    | M_times j => k + j = w
    | M_go j => k + j + 1 = w
    | _ => k = w
    end.
  Definition wgof (ws : list wst) : nat := (w - length ws) + pendings ws.

  Definition readable (f : nat) : bool :=
    negb (fails "readFile" f) && negb (fails "parser.ParseCtx" f).

  Notation n := (length files).
  Notation PROG := (pool_prog_lit v).

  Definition mk_chans (M : mst) (g1 : option sst) (g2 : option cpc) (D : data) : list (bytes * chan) :=
    [("c0", Ch n (d_q0 D) (past_close_m (fst (fst M))));
     ("c1", Ch n (d_q1 D) (fl1 g2));
     ("c2", Ch w (d_q2 D) (fl2 g2));
     ("c3", Ch n (d_q3 D) (fl3 g2))]
    ++ (if has_c4 (fst (fst M)) then [("c4", Ch 0 [] (sdead g1))] else []).

  Definition mk_sk (M : mst) (ws : list wst) (g1 : option sst) (g2 : option cpc) (D : data) : sk :=
    SK (mgor M :: map wgor ws ++ olist (option_map sgor g1) ++ olist (option_map cgor g2))
       (mk_chans M g1 g2 D)
       [("n0", n); ("n1", w)]
       (wgof ws) (d_mg D) (d_skp D) false.

  Definition mabs (M : mst) : mstate :=
    let '(p, c, _) := M in
    match p with
    | M_loop | M_times _ | M_go _ | M_foreach => Sending files
    | M_each rest => Sending rest
    | M_send rest => Sending (c :: rest)
    | M_close => CloseFiles
    | M_make4 | M_go1 => StartStatus
    | M_go2 => StartCloser
    | M_range | M_krange | M_hook => Collect
    | M_join => Join
    | M_ret | M_dead => Done
    end.

  Definition absd (M : mst) (ws : list wst) (g1 : option sst) (g2 : option cpc) (D : data) : state :=
    St (mabs M) (d_q0 D) (past_close_m (fst (fst M)))
       (map wabs ws ++ repeat Recv (w - length ws))
       (length (d_q2 D)) (length (d_q3 D)) (d_q1 D)
       (sabs g1) (cabs g2) (d_mg D) (d_skp D).

  (* a worker past the first error check has read its file *)
  Definition wok (x : wst) : Prop :=
    match x with (W_ps, c, _) => fails "readFile" c = false | _ => True end.

  Record wf (M : mst) (ws : list wst) (g1 : option sst) (g2 : option cpc) (D : data) : Prop := {
    wf_nw : nworkers (fst (fst M)) (length ws);
    wf_g1 : (match g1 with Some _ => true | None => false end) = has_g1 (fst (fst M));
    wf_g2 : (match g2 with Some _ => true | None => false end) = has_g2 (fst (fst M));
    wf_past : cpast g2 = true -> pendings ws = 0;
    wf_if : sif_false g1 = true ->
            (fl2 g2 && isnil (d_q2 D)) || (fl3 g2 && isnil (d_q3 D)) = true;
    wf_ok : Forall wok ws }.
  Arguments wf_nw {M ws g1 g2 D}.
  Arguments wf_g1 {M ws g1 g2 D}.
  Arguments wf_g2 {M ws g1 g2 D}.
  Arguments wf_past {M ws g1 g2 D}.
  Arguments wf_if {M ws g1 g2 D}.
  Arguments wf_ok {M ws g1 g2 D}.

  (* the sequential prologue *)
  Fixpoint pre (j : nat) : sk :=
    match j with
    | 0 => sk_init PROG
    | S j' => hd (sk_init PROG) (sk_steps PROG files fails (pre j'))
    end.

  (* ---------------------------------------------------------------------- *)
  (* abs on concretisations                                                  *)
  (* ---------------------------------------------------------------------- *)

  Lemma main_pc_mgor : forall M, main_pc files (mgor M) = mabs M.
  Proof. intros [[p c] o]. destruct p; reflexivity. Qed.

  Lemma worker_pc_wgor : forall x, worker_pc (wgor x) = wabs x.
  Proof. intros [[p c] o]. destruct p; reflexivity. Qed.

  Lemma filter_g0_workers : forall ws rest,
    filter (fun g => bytes_eqb (g_name g) "g0") (map wgor ws ++ rest) =
    map wgor ws ++ filter (fun g => bytes_eqb (g_name g) "g0") rest.
  Proof.
    induction ws as [|[[p c] o] ws IH]; intros rest; [reflexivity|].
    cbn [map app filter wgor g_name]. change (bytes_eqb "g0" "g0") with true. cbv iota.
    rewrite IH. reflexivity.
  Qed.

  Lemma find_other_workers : forall nm ws rest, bytes_eqb "g0" nm = false ->
    find_gor nm (map wgor ws ++ rest) = find_gor nm rest.
  Proof.
    intros nm ws rest Hnm. induction ws as [|[[p c] o] ws IH]; [reflexivity|].
    unfold find_gor in *. cbn [map app find wgor g_name]. rewrite Hnm. exact IH.
  Qed.

  Definition tailg (g1 : option sst) (g2 : option cpc) : list gor :=
    olist (option_map sgor g1) ++ olist (option_map cgor g2).

  Lemma filter_g0_tail : forall g1 g2,
    filter (fun g => bytes_eqb (g_name g) "g0") (tailg g1 g2) = [].
  Proof. intros [[[p c] o]|] [q|]; reflexivity. Qed.

  Lemma status_pc_tail : forall g1 g2,
    match find_gor "g1" (tailg g1 g2) with
    | None => GNotStarted
    | Some g => if g_live g then GRunning else GExited
    end = sabs g1.
  Proof. intros [[[p c] o]|] [q|]; try destruct p; reflexivity. Qed.

  Lemma closer_pc_tail : forall g1 g2,
    match find_gor "g2" (tailg g1 g2) with
    | None => CNotStarted
    | Some g =>
        if negb (g_live g) then CFired else
        match g_k g with
        | KS SWgWait :: _ => CWaiting
        | KS (SClose ch) :: _ =>
            if bytes_eqb ch "c1" then CWaiting else if bytes_eqb ch "c2" then CClosedR else CClosedRS
        | _ => CFired
        end
    end = cabs g2.
  Proof. intros [[[p c] o]|] [q|]; try destruct q; reflexivity. Qed.

  Lemma closer_pc_mk : forall M ws g1 g2,
    closer_pc (mgor M :: map wgor ws ++ tailg g1 g2) = cabs g2.
  Proof.
    intros M ws g1 g2. unfold closer_pc.
    replace (find_gor "g2" (mgor M :: map wgor ws ++ tailg g1 g2)) with (find_gor "g2" (tailg g1 g2)).
    - apply closer_pc_tail.
    - destruct M as [[p c] o]. unfold find_gor at 2. cbn [find mgor g_name].
      change (bytes_eqb "Initialize" "g2") with false. cbv iota.
      symmetry. apply (find_other_workers "g2"). reflexivity.
  Qed.

  Lemma status_pc_mk : forall M ws g1 g2,
    status_pc (mgor M :: map wgor ws ++ tailg g1 g2) = sabs g1.
  Proof.
    intros M ws g1 g2. unfold status_pc.
    replace (find_gor "g1" (mgor M :: map wgor ws ++ tailg g1 g2)) with (find_gor "g1" (tailg g1 g2)).
    - apply status_pc_tail.
    - destruct M as [[p c] o]. unfold find_gor at 2. cbn [find mgor g_name].
      change (bytes_eqb "Initialize" "g1") with false. cbv iota.
      symmetry. apply (find_other_workers "g1"). reflexivity.
  Qed.

  Lemma abs_mk : forall M ws g1 g2 D,
    abs files w (mk_sk M ws g1 g2 D) = absd M ws g1 g2 D.
  Proof.
    intros M ws g1 g2 D. unfold abs, absd, mk_sk. cbn [s_gors s_merged s_skipped].
    fold (tailg g1 g2).
    rewrite status_pc_mk, closer_pc_mk, main_pc_mgor.
    replace (filter (fun g => bytes_eqb (g_name g) "g0") (mgor M :: map wgor ws ++ tailg g1 g2))
      with (map wgor ws).
    2:{ destruct M as [[p c] o]. cbn [filter mgor g_name]. change (bytes_eqb "Initialize" "g0") with false.
        cbv iota. rewrite filter_g0_workers, filter_g0_tail, app_nil_r. reflexivity. }
    rewrite map_map, (map_ext _ _ worker_pc_wgor), map_length.
    reflexivity.
  Qed.

  Lemma flags_agree_mk : forall M ws g1 g2 D, flags_agree (mk_sk M ws g1 g2 D) = true.
  Proof.
    intros M ws g1 g2 D. unfold flags_agree, mk_sk. cbn [s_gors]. fold (tailg g1 g2).
    rewrite closer_pc_mk. destruct g2 as [[]|]; reflexivity.
  Qed.

  (* ---------------------------------------------------------------------- *)
  (* Steps                                                                   *)
  (* ---------------------------------------------------------------------- *)

  Definition SIZES : list (bytes * nat) := [("n0", n); ("n1", w)].

  Definition raw (pre : list gor) (g : gor) (post : list gor) (ch : list (bytes * chan))
      (wg : nat) (mg skp : list nat) : sk :=
    SK (pre ++ g :: post) ch SIZES wg mg skp false.

  Definition sim (a b : state) : Prop := b = a \/ Pool.step n w readable a b.

  Lemma wgof_mid : forall l1 x l2,
    wgof (l1 ++ x :: l2) =
    (w - (length l1 + S (length l2))) + (pendings l1 + wpend (fst (fst x)) + pendings l2).
  Proof.
    intros. unfold wgof, pendings. rewrite list_sum_map_mid, app_length. reflexivity.
  Qed.

  Lemma pendings_mid : forall l1 x l2,
    pendings (l1 ++ x :: l2) = pendings l1 + wpend (fst (fst x)) + pendings l2.
  Proof. intros. unfold pendings. apply list_sum_map_mid. Qed.

  Lemma mk_sk_worker : forall M l1 x l2 g1 g2 D,
    mk_sk M (l1 ++ x :: l2) g1 g2 D =
    raw (mgor M :: map wgor l1) (wgor x) (map wgor l2 ++ tailg g1 g2) (mk_chans M g1 g2 D)
        (wgof (l1 ++ x :: l2)) (d_mg D) (d_skp D).
  Proof.
    intros. unfold mk_sk, raw, tailg. rewrite map_app. cbn [map app]. rewrite <- app_assoc. reflexivity.
  Qed.

  Lemma not_past_flags : forall g2, cpast g2 = false ->
    fl1 g2 = false /\ fl2 g2 = false /\ fl3 g2 = false.
  Proof. intros [[]|] H; try discriminate; repeat split; reflexivity. Qed.

  Lemma flags_past : forall g2, fl2 g2 || fl3 g2 = true -> cpast g2 = true.
  Proof. intros [[]|] H; try discriminate; reflexivity. Qed.

  Lemma pending_not_past : forall M l1 x l2 g1 g2 D,
    wf M (l1 ++ x :: l2) g1 g2 D -> wpend (fst (fst x)) = 1 -> cpast g2 = false.
  Proof.
    intros M l1 x l2 g1 g2 D W Hp. destruct (cpast g2) eqn:E; [|reflexivity].
    pose proof (wf_past W E) as H. rewrite pendings_mid in H. lia.
  Qed.

  Lemma wf_worker : forall M l1 x l2 g1 g2 D x' D',
    wf M (l1 ++ x :: l2) g1 g2 D ->
    wpend (fst (fst x')) <= wpend (fst (fst x)) -> wok x' ->
    (cpast g2 = true -> d_q2 D' = d_q2 D /\ d_q3 D' = d_q3 D) ->
    wf M (l1 ++ x' :: l2) g1 g2 D'.
  Proof.
    intros M l1 x l2 g1 g2 D x' D' W Hp Hok Hq. destruct W as [W1 W2 W3 W4 W5 W6].
    constructor.
    - rewrite app_length in *. exact W1.
    - exact W2.
    - exact W3.
    - intros Hc. specialize (W4 Hc). rewrite pendings_mid in *. lia.
    - intros Hs. specialize (W5 Hs).
      assert (Hc : cpast g2 = true).
      { apply flags_past. destruct (fl2 g2), (fl3 g2); try reflexivity; discriminate. }
      destruct (Hq Hc) as [E2 E3]. rewrite E2, E3. exact W5.
    - apply Forall_app in W6. destruct W6 as [Wa Wb]. apply Forall_cons_iff in Wb.
      apply Forall_app. split; [exact Wa|]. constructor; [exact Hok | apply Wb].
  Qed.

  Lemma absd_worker : forall M l1 x l2 g1 g2 D,
    absd M (l1 ++ x :: l2) g1 g2 D =
    St (mabs M) (d_q0 D) (past_close_m (fst (fst M)))
       (map wabs l1 ++ wabs x :: (map wabs l2 ++ repeat Recv (w - (length l1 + S (length l2)))))
       (length (d_q2 D)) (length (d_q3 D)) (d_q1 D) (sabs g1) (cabs g2) (d_mg D) (d_skp D).
  Proof.
    intros. unfold absd. rewrite map_app, app_length, <- app_assoc. reflexivity.
  Qed.

  Ltac gsimp H :=
    cbn in H; unfold with_g, do_return in H; cbn in H.

  Lemma length_snoc : forall (A : Type) (l : list A) x, length (l ++ [x]) = S (length l).
  Proof. intros. rewrite app_length. cbn. lia. Qed.

  Lemma step_worker : forall M l1 x l2 g1 g2 D s',
    wf M (l1 ++ x :: l2) g1 g2 D ->
    In s' (gstep PROG files fails (mk_sk M (l1 ++ x :: l2) g1 g2 D) (length (mgor M :: map wgor l1))) ->
    exists x' D', s' = mk_sk M (l1 ++ x' :: l2) g1 g2 D' /\ wf M (l1 ++ x' :: l2) g1 g2 D' /\
      sim (absd M (l1 ++ x :: l2) g1 g2 D) (absd M (l1 ++ x' :: l2) g1 g2 D').
  Proof.
    intros M l1 x l2 g1 g2 D s' W H.
    assert (Hnp : wpend (fst (fst x)) = 1 -> fl1 g2 = false /\ fl2 g2 = false /\ fl3 g2 = false).
    { intros Hp. apply not_past_flags. eapply pending_not_past; eassumption. }
    assert (Hnc : wpend (fst (fst x)) = 1 -> cpast g2 = false).
    { intros Hp. eapply pending_not_past; eassumption. }
    assert (Hwg : wpend (fst (fst x)) = 1 -> (wgof (l1 ++ x :: l2) =? 0) = false).
    { intros Hp. apply Nat.eqb_neq. rewrite wgof_mid. lia. }
    assert (Hok : wok x).
    { pose proof (wf_ok W) as Hf. apply Forall_app in Hf. destruct Hf as [_ Hf].
      apply Forall_cons_iff in Hf. apply Hf. }
    rewrite mk_sk_worker in H. unfold raw, gstep in H. cbn [s_gors] in H.
    rewrite nth_error_mid in H.
    remember (mgor M :: map wgor l1) as pre eqn:Epre.
    remember (map wgor l2 ++ tailg g1 g2) as post eqn:Epost.
    remember (wgof (l1 ++ x :: l2)) as wg eqn:Ewg.
    destruct x as [[p c] o]. destruct D as [q0 q1 q2 q3 mg skp].
    Ltac weq0 := rewrite mk_sk_worker; unfold raw, mk_chans; subst; rewrite ?set_gor_mid, !wgof_mid.
    Ltac weq := weq0; reflexivity.
    Ltac wwf W Hnc :=
      eapply wf_worker;
      [exact W | cbn; lia | cbn; auto
      | cbn; try (intros _; split; reflexivity);
        try (let Hc := fresh in intros Hc; rewrite (Hnc eq_refl) in Hc; discriminate)].
    Ltac wabs_norm :=
      rewrite !absd_worker; cbn [d_q0 d_q1 d_q2 d_q3 d_mg d_skp wabs]; rewrite ?length_snoc.
    destruct p; cbn [wpend fst] in Hnp, Hwg, Hnc; gsimp H.
    - (* W_start *)
      destruct H as [H|[]]. subst s'.
      exists (W_range, c, o), (Dt q0 q1 q2 q3 mg skp). split; [weq | split; [wwf W Hnc|]].
      rewrite !absd_worker. left. reflexivity.
    - (* W_range *)
      destruct q0 as [|f r].
      + destruct (past_close_m (fst (fst M))) eqn:Hpc; [|destruct H]. destruct H as [H|[]]. subst s'.
        exists (W_done, c, o), (Dt [] q1 q2 q3 mg skp). split; [weq0; rewrite Hpc; reflexivity | split; [wwf W Hnc|]].
        rewrite !absd_worker. right. cbn [d_q0 d_q1 d_q2 d_q3 d_mg d_skp wabs]. rewrite Hpc. apply step_w_exit.
      + destruct H as [H|[]]. subst s'.
        exists (W_hook, f, true), (Dt r q1 q2 q3 mg skp). split; [weq | split; [wwf W Hnc|]].
        rewrite !absd_worker. right. cbn [d_q0 d_q1 d_q2 d_q3 d_mg d_skp wabs]. apply step_w_recv.
    - (* W_hook *)
      destruct H as [H|[]]. subst s'.
      exists (W_s1, c, o), (Dt q0 q1 q2 q3 mg skp). split; [weq | split; [wwf W Hnc|]].
      rewrite !absd_worker. left. reflexivity.
    - (* W_s1 *)
      destruct (Hnp eq_refl) as (F1 & F2 & F3). rewrite F2 in H. cbv iota in H.
      destruct (length q2 <? w) eqn:Hlt; [|destruct H]. apply Nat.ltb_lt in Hlt.
      destruct H as [H|[]]. subst s'.
      exists (W_rd, c, o), (Dt q0 q1 (q2 ++ [c]) q3 mg skp).
      split; [weq0; rewrite F2; reflexivity | split; [wwf W Hnc|]].
      wabs_norm. right. apply step_w_status1. exact Hlt.
    - (* W_rd *)
      destruct (fails "readFile" c) eqn:Hf; destruct H as [H|[]]; subst s'.
      + exists (W_range, c, o), (Dt q0 q1 q2 q3 mg (c :: skp)). split; [weq | split; [wwf W Hnc|]].
        wabs_norm. right. apply step_w_read_fail. unfold readable. rewrite Hf. reflexivity.
      + exists (W_ps, c, o), (Dt q0 q1 q2 q3 mg skp). split; [weq | split; [wwf W Hnc|]].
        wabs_norm. left. reflexivity.
    - (* W_ps *)
      cbn in Hok.
      destruct (fails "parser.ParseCtx" c) eqn:Hf; destruct H as [H|[]]; subst s'.
      + exists (W_range, c, o), (Dt q0 q1 q2 q3 mg (c :: skp)). split; [weq | split; [wwf W Hnc|]].
        wabs_norm. right. apply step_w_read_fail. unfold readable. rewrite Hf. apply andb_false_r.
      + exists (W_s2, c, o), (Dt q0 q1 q2 q3 mg skp). split; [weq | split; [wwf W Hnc|]].
        wabs_norm. right. apply step_w_read_ok. unfold readable. rewrite Hf, Hok. reflexivity.
    - (* W_s2 *)
      destruct (Hnp eq_refl) as (F1 & F2 & F3). rewrite F2 in H. cbv iota in H.
      destruct (length q2 <? w) eqn:Hlt; [|destruct H]. apply Nat.ltb_lt in Hlt.
      destruct H as [H|[]]. subst s'.
      exists (W_bd, c, o), (Dt q0 q1 (q2 ++ [c]) q3 mg skp).
      split; [weq0; rewrite F2; reflexivity | split; [wwf W Hnc|]].
      wabs_norm. right. apply step_w_status2. exact Hlt.
    - (* W_bd *)
      destruct H as [H|[]]. subst s'.
      exists (W_s3, c, o), (Dt q0 q1 q2 q3 mg skp). split; [weq | split; [wwf W Hnc|]].
      wabs_norm. right. apply step_w_build.
    - (* W_s3 *)
      destruct (Hnp eq_refl) as (F1 & F2 & F3). rewrite F2 in H. cbv iota in H.
      destruct (length q2 <? w) eqn:Hlt; [|destruct H]. apply Nat.ltb_lt in Hlt.
      destruct H as [H|[]]. subst s'.
      exists (W_sr, c, o), (Dt q0 q1 (q2 ++ [c]) q3 mg skp).
      split; [weq0; rewrite F2; reflexivity | split; [wwf W Hnc|]].
      wabs_norm. right. apply step_w_status3. exact Hlt.
    - (* W_sr *)
      destruct (Hnp eq_refl) as (F1 & F2 & F3). rewrite F1 in H. cbv iota in H.
      destruct (length q1 <? n) eqn:Hlt; [|destruct H]. apply Nat.ltb_lt in Hlt.
      destruct H as [H|[]]. subst s'.
      exists (W_sp, c, o), (Dt q0 (q1 ++ [c]) q2 q3 mg skp).
      split; [weq0; rewrite F1; reflexivity | split; [wwf W Hnc|]].
      wabs_norm. right. apply step_w_send_result. exact Hlt.
    - (* W_sp *)
      destruct (Hnp eq_refl) as (F1 & F2 & F3). rewrite F3 in H. cbv iota in H.
      destruct (length q3 <? n) eqn:Hlt; [|destruct H]. apply Nat.ltb_lt in Hlt.
      destruct H as [H|[]]. subst s'.
      exists (W_range, c, o), (Dt q0 q1 q2 (q3 ++ [c]) mg skp).
      split; [weq0; rewrite F3; reflexivity | split; [wwf W Hnc|]].
      wabs_norm. right. apply step_w_send_progress. exact Hlt.
    - (* W_done *)
      rewrite (Hwg eq_refl) in H. destruct H as [H|[]]. subst s'.
      exists (W_end, c, o), (Dt q0 q1 q2 q3 mg skp). split; [| split; [wwf W Hnc|]].
      + weq0. cbn [wpend fst]. f_equal. lia.
      + wabs_norm. left. reflexivity.
    - (* W_end *)
      destruct H as [H|[]]. subst s'.
      exists (W_dead, c, o), (Dt q0 q1 q2 q3 mg skp). split; [weq | split; [wwf W Hnc|]].
      wabs_norm. left. reflexivity.
    - (* W_dead *)
      destruct H.
  Qed.

  (* ---------------- the closer ---------------- *)

  Lemma mk_sk_closer : forall M ws g1 p D,
    mk_sk M ws g1 (Some p) D =
    raw (mgor M :: map wgor ws ++ olist (option_map sgor g1)) (cgor p) [] (mk_chans M g1 (Some p) D)
        (wgof ws) (d_mg D) (d_skp D).
  Proof.
    intros. unfold mk_sk, raw. cbn [option_map olist app]. rewrite <- app_assoc. reflexivity.
  Qed.

  Lemma pendings0_exited : forall ws, pendings ws = 0 -> forallb is_exited (map wabs ws) = true.
  Proof.
    induction ws as [|[[p c] o] ws IH]; intros H; [reflexivity|].
    change (pendings ((p, c, o) :: ws)) with (wpend p + pendings ws) in H.
    cbn [map forallb]. rewrite IH by lia.
    destruct p; cbn [wpend] in H; try lia; reflexivity.
  Qed.

  Lemma has_g2_nw : forall (M : mst) k, has_g2 (fst (fst M)) = true -> nworkers (fst (fst M)) k -> k = w.
  Proof. intros [[p c] o] k H1 H2. destruct p; try discriminate; exact H2. Qed.

  Lemma has_g1_nw : forall (M : mst) k, has_g1 (fst (fst M)) = true -> nworkers (fst (fst M)) k -> k = w.
  Proof. intros [[p c] o] k H1 H2. destruct p; try discriminate; exact H2. Qed.

  Lemma has_g1_c4 : forall (M : mst), has_g1 (fst (fst M)) = true -> has_c4 (fst (fst M)) = true.
  Proof. intros [[p c] o] H1. destruct p; try discriminate; reflexivity. Qed.

  Lemma step_closer : forall M ws g1 p D s',
    wf M ws g1 (Some p) D ->
    In s' (gstep PROG files fails (mk_sk M ws g1 (Some p) D)
             (length (mgor M :: map wgor ws ++ olist (option_map sgor g1)))) ->
    exists p', s' = mk_sk M ws g1 (Some p') D /\ wf M ws g1 (Some p') D /\
      sim (absd M ws g1 (Some p) D) (absd M ws g1 (Some p') D).
  Proof.
    intros M ws g1 p D s' W H.
    assert (Hlen : length ws = w).
    { eapply has_g2_nw; [symmetry; exact (wf_g2 W) | exact (wf_nw W)]. }
    rewrite mk_sk_closer in H. unfold raw, gstep in H. cbn [s_gors] in H.
    rewrite nth_error_mid in H.
    remember (mgor M :: map wgor ws ++ olist (option_map sgor g1)) as pre eqn:Epre.
    remember (wgof ws) as wg eqn:Ewg.
    destruct W as [W1 W2 W3 W4 W5 W6].
    destruct D as [q0 q1 q2 q3 mg skp].
    Ltac ceq := rewrite mk_sk_closer; unfold raw, mk_chans; subst; rewrite ?set_gor_mid; reflexivity.
    destruct p; gsimp H.
    - (* C_wait *)
      destruct (wg =? 0) eqn:Hz; [|destruct H]. apply Nat.eqb_eq in Hz.
      destruct H as [H|[]]. subst s'.
      exists C_c1. split; [ceq | split].
      + constructor; try assumption. intros _. unfold wgof in *. lia.
      + left. reflexivity.
    - (* C_c1 *)
      destruct H as [H|[]]. subst s'.
      exists C_c2. split; [ceq | split].
      + constructor; assumption.
      + right. unfold absd. cbn [cabs]. apply step_c_wait.
        rewrite Hlen, Nat.sub_diag. cbn [repeat]. rewrite app_nil_r.
        apply pendings0_exited. apply W4. reflexivity.
    - (* C_c2 *)
      destruct H as [H|[]]. subst s'.
      exists C_c3. split; [ceq | split].
      + constructor; try assumption. intros Hs. specialize (W5 Hs). cbn in W5 |- *.
        destruct (isnil q2); [reflexivity | exact W5].
      + right. unfold absd. cbn [cabs]. apply step_c_close_status.
    - (* C_c3 *)
      destruct H as [H|[]]. subst s'.
      exists C_end. split; [ceq | split].
      + constructor; try assumption. intros Hs. specialize (W5 Hs). cbn in W5 |- *.
        destruct (isnil q2); [reflexivity|]. cbn in W5. discriminate.
      + right. unfold absd. cbn [cabs]. apply step_c_close_progress.
    - (* C_end *)
      destruct H as [H|[]]. subst s'.
      exists C_dead. split; [ceq | split].
      + constructor; assumption.
      + left. reflexivity.
    - destruct H.
  Qed.

  (* ---------------- the status updater ---------------- *)

  Lemma mk_sk_status : forall M ws x g2 D,
    mk_sk M ws (Some x) g2 D =
    raw (mgor M :: map wgor ws) (sgor x) (olist (option_map cgor g2)) (mk_chans M (Some x) g2 D)
        (wgof ws) (d_mg D) (d_skp D).
  Proof. intros. reflexivity. Qed.

  Lemma step_status : forall M ws x g2 D s',
    wf M ws (Some x) g2 D ->
    In s' (gstep PROG files fails (mk_sk M ws (Some x) g2 D) (length (mgor M :: map wgor ws))) ->
    exists x' D', s' = mk_sk M ws (Some x') g2 D' /\ wf M ws (Some x') g2 D' /\
      sim (absd M ws (Some x) g2 D) (absd M ws (Some x') g2 D').
  Proof.
    intros M ws x g2 D s' W H.
    assert (H4 : has_c4 (fst (fst M)) = true).
    { apply has_g1_c4. symmetry. exact (wf_g1 W). }
    rewrite mk_sk_status in H. unfold raw, gstep in H. cbn [s_gors] in H.
    rewrite nth_error_mid in H.
    remember (mgor M :: map wgor ws) as pre eqn:Epre.
    remember (olist (option_map cgor g2)) as post eqn:Epost.
    remember (wgof ws) as wg eqn:Ewg.
    destruct W as [W1 W2 W3 W4 W5 W6].
    destruct D as [q0 q1 q2 q3 mg skp].
    destruct x as [[p c] o].
    Ltac seq0 := rewrite mk_sk_status; unfold raw, mk_chans; subst; rewrite ?set_gor_mid.
    Ltac seq := seq0; reflexivity.
    destruct p; gsimp H.
    - (* S_defer *)
      destruct H as [H|[]]. subst s'.
      exists (S_forever, c, o), (Dt q0 q1 q2 q3 mg skp). split; [seq | split].
      + constructor; assumption.
      + left. reflexivity.
    - (* S_forever *)
      destruct H as [H|[]]. subst s'.
      exists (S_kforever, c, o), (Dt q0 q1 q2 q3 mg skp). split; [seq | split].
      + constructor; assumption.
      + left. reflexivity.
    - (* S_kforever *)
      destruct H as [H|[]]. subst s'.
      exists (S_select, c, o), (Dt q0 q1 q2 q3 mg skp). split; [seq | split].
      + constructor; assumption.
      + left. reflexivity.
    - (* S_select *)
      apply in_app_or in H. destruct H as [H|H]; [|apply in_app_or in H; destruct H as [H|[]]].
      + destruct q2 as [|y r].
        * destruct (fl2 g2) eqn:F2; [|destruct H]. destruct H as [H|[]]. subst s'.
          exists (S_if, c, false), (Dt q0 q1 [] q3 mg skp). split; [seq0; rewrite F2; reflexivity | split].
          -- constructor; try assumption. intros _. cbn. rewrite F2. reflexivity.
          -- left. reflexivity.
        * destruct H as [H|[]]. subst s'.
          exists (S_if, y, true), (Dt q0 q1 r q3 mg skp). split; [seq | split].
          -- constructor; try assumption. discriminate.
          -- right. unfold absd. cbn [d_q0 d_q1 d_q2 d_q3 d_mg d_skp sabs length]. apply step_g_status.
      + destruct q3 as [|y r].
        * destruct (fl3 g2) eqn:F3; [|destruct H]. destruct H as [H|[]]. subst s'.
          exists (S_if, c, false), (Dt q0 q1 q2 [] mg skp). split; [seq0; rewrite F3; reflexivity | split].
          -- constructor; try assumption. intros _. cbn. rewrite F3. apply orb_true_r.
          -- left. reflexivity.
        * destruct H as [H|[]]. subst s'.
          exists (S_if, y, true), (Dt q0 q1 q2 r mg skp). split; [seq | split].
          -- constructor; try assumption. discriminate.
          -- right. unfold absd. cbn [d_q0 d_q1 d_q2 d_q3 d_mg d_skp sabs length]. apply step_g_progress.
    - (* S_if *)
      destruct o.
      + destruct H as [H|[]]. subst s'.
        exists (S_kforever, c, true), (Dt q0 q1 q2 q3 mg skp). split; [seq | split].
        * constructor; try assumption; try discriminate.
        * left. reflexivity.
      + rewrite H4 in H. cbn in H. destruct H as [H|[]]. subst s'.
        exists (S_dead, c, false), (Dt q0 q1 q2 q3 mg skp). split; [seq0; rewrite H4; reflexivity | split].
        * constructor; try assumption. discriminate.
        * right. unfold absd. cbn [d_q0 d_q1 d_q2 d_q3 d_mg d_skp sabs].
          specialize (W5 eq_refl). cbn [d_q2 d_q3] in W5. apply orb_true_iff in W5.
          destruct W5 as [W5|W5]; apply andb_true_iff in W5; destruct W5 as [Wa Wb].
          -- destruct q2; [|discriminate]. apply step_g_exit_status. exact Wa.
          -- destruct q3; [|discriminate]. apply step_g_exit_progress. exact Wa.
    - destruct H.
  Qed.

  (* ---------------- Initialize ---------------- *)

  Lemma set_gor_0 : forall g post ch sz wg mg skp p g',
    set_gor (SK (g :: post) ch sz wg mg skp p) 0 g' = g' :: post.
  Proof. reflexivity. Qed.

  Lemma step_main : forall M ws g1 g2 D s',
    wf M ws g1 g2 D ->
    In s' (gstep PROG files fails (mk_sk M ws g1 g2 D) 0) ->
    exists M' ws' g1' g2' D', s' = mk_sk M' ws' g1' g2' D' /\ wf M' ws' g1' g2' D' /\
      sim (absd M ws g1 g2 D) (absd M' ws' g1' g2' D').
  Proof.
    intros M ws g1 g2 D s' W H.
    unfold mk_sk, gstep in H. cbn [s_gors nth_error] in H.
    remember (wgof ws) as wg eqn:Ewg.
    destruct W as [W1 W2 W3 W4 W5 W6].
    destruct D as [q0 q1 q2 q3 mg skp].
    destruct M as [[p c] o].
    cbn [fst] in W1, W2, W3.
    Ltac meq0 := unfold mk_sk, mk_chans; subst; rewrite ?set_gor_0.
    Ltac meq := meq0; reflexivity.
    destruct p.
    - (* M_loop *)
      remember (map wgor ws ++ olist (option_map sgor g1) ++ olist (option_map cgor g2)) as post eqn:Epost.
      gsimp H. destruct H as [H|[]]. subst s'.
      exists (M_times w, c, o), ws, g1, g2, (Dt q0 q1 q2 q3 mg skp). split; [meq | split].
      + constructor; try assumption. cbn in *. lia.
      + left. reflexivity.
    - (* M_times *)
      remember (map wgor ws ++ olist (option_map sgor g1) ++ olist (option_map cgor g2)) as post eqn:Epost.
      destruct k as [|k]; gsimp H; destruct H as [H|[]]; subst s'.
      + exists (M_foreach, c, o), ws, g1, g2, (Dt q0 q1 q2 q3 mg skp). split; [meq | split].
        * constructor; try assumption. cbn in *. lia.
        * left. reflexivity.
      + exists (M_go k, c, o), ws, g1, g2, (Dt q0 q1 q2 q3 mg skp). split; [meq | split].
        * constructor; try assumption. cbn in *. lia.
        * left. reflexivity.
    - (* M_go *)
      destruct g1; [discriminate W2|]. destruct g2; [discriminate W3|].
      gsimp H. destruct H as [H|[]]. subst s'.
      exists (M_times k, c, o), (ws ++ [(W_start, 0, true)]), None, None, (Dt q0 q1 q2 q3 mg skp).
      cbn in W1. split; [| split].
      + meq0. cbn [option_map olist app]. rewrite !app_nil_r, map_app. cbn [map wgor wk_of wlive].
        f_equal. unfold wgof, pendings. rewrite map_app, list_sum_app, app_length.
        change (length [(W_start, 0, true)]) with 1.
        change (list_sum (map (fun x : wst => wpend (fst (fst x))) [(W_start, 0, true)])) with 1. lia.
      + constructor; try assumption.
        * cbn. rewrite app_length. cbn. lia.
        * discriminate.
        * apply Forall_app. split; [assumption|]. constructor; [exact I | constructor].
      + left. unfold absd. cbn [mabs fst past_close_m]. rewrite map_app, app_length, <- app_assoc. cbn [map wabs app length].
        replace (w - length ws) with (S (w - (length ws + 1))) by lia. reflexivity.
    - (* M_foreach *)
      remember (map wgor ws ++ olist (option_map sgor g1) ++ olist (option_map cgor g2)) as post eqn:Epost.
      gsimp H. destruct H as [H|[]]. subst s'.
      exists (M_each files, c, o), ws, g1, g2, (Dt q0 q1 q2 q3 mg skp). split; [meq | split].
      + constructor; try assumption.
      + left. reflexivity.
    - (* M_each *)
      remember (map wgor ws ++ olist (option_map sgor g1) ++ olist (option_map cgor g2)) as post eqn:Epost.
      destruct rest as [|f rest]; gsimp H; destruct H as [H|[]]; subst s'.
      + exists (M_close, c, o), ws, g1, g2, (Dt q0 q1 q2 q3 mg skp). split; [meq | split].
        * constructor; try assumption.
        * right. unfold absd. cbn. apply step_m_sent_all.
      + exists (M_send rest, f, o), ws, g1, g2, (Dt q0 q1 q2 q3 mg skp). split; [meq | split].
        * constructor; try assumption.
        * left. reflexivity.
    - (* M_send *)
      remember (map wgor ws ++ olist (option_map sgor g1) ++ olist (option_map cgor g2)) as post eqn:Epost.
      gsimp H. destruct (length q0 <? n) eqn:Hlt; [|destruct H]. apply Nat.ltb_lt in Hlt.
      destruct H as [H|[]]; subst s'.
      exists (M_each rest, c, o), ws, g1, g2, (Dt (q0 ++ [c]) q1 q2 q3 mg skp). split; [meq | split].
      * constructor; try assumption.
      * right. unfold absd. cbn. apply step_m_send. exact Hlt.
    - (* M_close *)
      remember (map wgor ws ++ olist (option_map sgor g1) ++ olist (option_map cgor g2)) as post eqn:Epost.
      gsimp H. destruct H as [H|[]]. subst s'.
      exists (M_make4, c, o), ws, g1, g2, (Dt q0 q1 q2 q3 mg skp). split; [meq | split].
      + constructor; try assumption.
      + right. unfold absd. cbn. apply step_m_close.
    - (* M_make4 *)
      destruct g1; [discriminate W2|].
      remember (map wgor ws ++ olist (option_map sgor None) ++ olist (option_map cgor g2)) as post eqn:Epost.
      gsimp H. destruct H as [H|[]]. subst s'.
      exists (M_go1, c, o), ws, None, g2, (Dt q0 q1 q2 q3 mg skp). split; [meq | split].
      + constructor; try assumption.
      + left. reflexivity.
    - (* M_go1 *)
      destruct g1; [discriminate W2|]. destruct g2; [discriminate W3|].
      gsimp H. destruct H as [H|[]]. subst s'.
      exists (M_go2, c, o), ws, (Some (S_defer, 0, true)), None, (Dt q0 q1 q2 q3 mg skp). split; [| split].
      + meq0. cbn [option_map olist app]. rewrite <- !app_assoc. reflexivity.
      + constructor; try assumption; try reflexivity; try discriminate.
      + right. unfold absd. cbn. apply step_m_start_status.
    - (* M_go2 *)
      destruct g2; [discriminate W3|].
      gsimp H. destruct H as [H|[]]. subst s'.
      exists (M_range, c, o), ws, g1, (Some C_wait), (Dt q0 q1 q2 q3 mg skp). split; [| split].
      + meq0. cbn [option_map olist app]. rewrite <- !app_assoc. reflexivity.
      + constructor; try assumption; try reflexivity; try discriminate.
      + right. unfold absd. cbn. apply step_m_start_closer.
    - (* M_range *)
      remember (map wgor ws ++ olist (option_map sgor g1) ++ olist (option_map cgor g2)) as post eqn:Epost.
      gsimp H. destruct H as [H|[]]. subst s'.
      exists (M_krange, c, o), ws, g1, g2, (Dt q0 q1 q2 q3 mg skp). split; [meq | split].
      + constructor; try assumption.
      + left. reflexivity.
    - (* M_krange *)
      remember (map wgor ws ++ olist (option_map sgor g1) ++ olist (option_map cgor g2)) as post eqn:Epost.
      gsimp H. destruct q1 as [|f r].
      + destruct (fl1 g2) eqn:F1; [|destruct H]. destruct H as [H|[]]. subst s'.
        exists (M_join, c, o), ws, g1, g2, (Dt q0 [] q2 q3 mg skp). split; [meq0; rewrite F1; reflexivity | split].
        * constructor; try assumption.
        * right. unfold absd. cbn. apply step_m_done. exact F1.
      + destruct H as [H|[]]. subst s'.
        exists (M_hook, f, true), ws, g1, g2, (Dt q0 r q2 q3 (mg ++ [f]) skp). split; [meq | split].
        * constructor; try assumption.
        * right. unfold absd. cbn. apply step_m_collect.
    - (* M_hook *)
      remember (map wgor ws ++ olist (option_map sgor g1) ++ olist (option_map cgor g2)) as post eqn:Epost.
      gsimp H. destruct H as [H|[]]. subst s'.
      exists (M_krange, c, o), ws, g1, g2, (Dt q0 q1 q2 q3 mg skp). split; [meq | split].
      + constructor; try assumption.
      + left. reflexivity.
    - (* M_join *)
      remember (map wgor ws ++ olist (option_map sgor g1) ++ olist (option_map cgor g2)) as post eqn:Epost.
      gsimp H. destruct (sdead g1) eqn:Hd; [|destruct H]. destruct H as [H|[]]. subst s'.
      exists (M_ret, c, o), ws, g1, g2, (Dt q0 q1 q2 q3 mg skp). split; [meq0; rewrite Hd; reflexivity | split].
      + constructor; try assumption.
      + right. unfold absd. cbn.
        assert (Hs : sabs g1 = GExited).
        { destruct g1 as [[[[] ?] ?]|]; try discriminate; reflexivity. }
        rewrite Hs. apply step_m_join.
    - (* M_ret *)
      remember (map wgor ws ++ olist (option_map sgor g1) ++ olist (option_map cgor g2)) as post eqn:Epost.
      gsimp H. destruct H as [H|[]]. subst s'.
      exists (M_dead, c, o), ws, g1, g2, (Dt q0 q1 q2 q3 mg skp). split; [meq | split].
      + constructor; try assumption.
      + left. reflexivity.
    - (* M_dead *)
      destruct H.
  Qed.

  (* ---------------- all goroutines ---------------- *)

  Lemma singleton_split : forall (A : Type) (y : A) a g b, [y] = a ++ g :: b -> a = [] /\ g = y /\ b = [].
  Proof.
    intros A y a g b H. destruct a as [|z a].
    - cbn in H. injection H as H1 H2. subst. auto.
    - cbn in H. injection H as H1 H2. destruct a; discriminate.
  Qed.

  Lemma gors_cases : forall M ws g1 g2 pre g post,
    mgor M :: map wgor ws ++ olist (option_map sgor g1) ++ olist (option_map cgor g2) = pre ++ g :: post ->
    pre = [] \/
    (exists l1 x l2, ws = l1 ++ x :: l2 /\ pre = mgor M :: map wgor l1) \/
    (exists x, g1 = Some x /\ pre = mgor M :: map wgor ws) \/
    (exists p, g2 = Some p /\ pre = mgor M :: map wgor ws ++ olist (option_map sgor g1)).
  Proof.
    intros M ws g1 g2 pre g post H. destruct pre as [|y pre]; [left; reflexivity | right].
    cbn in H. injection H as Hy H. subst y.
    destruct (app_split_cases _ _ _ _ _ _ H) as [[b [E1 E2]] | [a [E1 E2]]].
    - left. apply map_eq_app in E1. destruct E1 as [l1 [l2' [Ews [El1 El2]]]].
      apply map_eq_cons in El2. destruct El2 as [x [l2 [El2 [Ex Eb]]]].
      exists l1, x, l2. subst. split; reflexivity.
    - right. destruct (app_split_cases _ _ _ _ _ _ E2) as [[b [E3 E4]] | [a' [E3 E4]]].
      + left. destruct g1 as [x|]; cbn in E3.
        * apply singleton_split in E3. destruct E3 as [Ea _]. subst. exists x. rewrite app_nil_r. auto.
        * destruct a; discriminate.
      + right. destruct g2 as [q|]; cbn in E4.
        * apply singleton_split in E4. destruct E4 as [Ea _]. subst. exists q. rewrite app_nil_r. auto.
        * destruct a'; discriminate.
  Qed.

  Lemma step_mk : forall M ws g1 g2 D s',
    wf M ws g1 g2 D ->
    In s' (sk_steps PROG files fails (mk_sk M ws g1 g2 D)) ->
    exists M' ws' g1' g2' D', s' = mk_sk M' ws' g1' g2' D' /\ wf M' ws' g1' g2' D' /\
      sim (absd M ws g1 g2 D) (absd M' ws' g1' g2' D').
  Proof.
    intros M ws g1 g2 D s' W H.
    apply in_sk_steps in H. destruct H as [pre [g [post [E H]]]].
    unfold mk_sk in E. cbn [s_gors] in E.
    destruct (gors_cases _ _ _ _ _ _ _ E) as [Hp | [[l1 [x [l2 [Ews Hp]]]] | [[x [Eg Hp]] | [q [Eg Hp]]]]];
      subst pre.
    - apply step_main; assumption.
    - subst ws. destruct (step_worker _ _ _ _ _ _ _ _ W H) as [x' [D' [E1 [E2 E3]]]].
      exists M, (l1 ++ x' :: l2), g1, g2, D'. auto.
    - subst g1. destruct (step_status _ _ _ _ _ _ W H) as [x' [D' [E1 [E2 E3]]]].
      exists M, ws, (Some x'), g2, D'. auto.
    - subst g2. destruct (step_closer _ _ _ _ _ _ W H) as [q' [E1 [E2 E3]]].
      exists M, ws, g1, (Some q'), D. auto.
  Qed.

  (* ---------------------------------------------------------------------- *)
  (* The prologue                                                            *)
  (* ---------------------------------------------------------------------- *)

  Definition D0 : data := Dt [] [] [] [] [] [].

  Lemma pre_steps : forall j, j <= 8 -> sk_steps PROG files fails (pre j) = [pre (S j)].
  Proof.
    intros j Hj.
    do 9 (destruct j as [|j]; [vm_compute; reflexivity|]). lia.
  Qed.

  Lemma pre_9 : pre 9 = mk_sk (M_loop, 0, true) [] None None D0.
  Proof.
    assert (E : wgof [] = w) by (unfold wgof; change (pendings []) with 0; change (length (@nil wst)) with 0; lia).
    unfold mk_sk. rewrite E. cbv -[dec_val]. rewrite Hv. reflexivity.
  Qed.

  Lemma pre_abs : forall j, j <= 9 -> abs files w (pre j) = Pool.init files w.
  Proof.
    intros j Hj.
    do 10 (destruct j as [|j]; [cbv -[dec_val Nat.sub repeat]; rewrite Nat.sub_0_r; reflexivity|]). lia.
  Qed.

  Lemma pre_ok : forall j, j <= 9 -> s_panic (pre j) = false /\ flags_agree (pre j) = true.
  Proof.
    intros j Hj.
    do 10 (destruct j as [|j]; [vm_compute; split; reflexivity|]). lia.
  Qed.

  Lemma wf_0 : wf (M_loop, 0, true) [] None None D0.
  Proof. constructor; try reflexivity; try discriminate. constructor. Qed.

  (* ---------------------------------------------------------------------- *)
  (* The invariant and the theorems                                          *)
  (* ---------------------------------------------------------------------- *)

  Inductive Inv : sk -> Prop :=
  | Inv_pre : forall j, j <= 8 -> Inv (pre j)
  | Inv_mk : forall M ws g1 g2 D, wf M ws g1 g2 D -> Inv (mk_sk M ws g1 g2 D).

  Definition sstep_w (s s' : sk) : Prop := In s' (sk_steps PROG files fails s).

  Inductive sreach_w : sk -> Prop :=
  | sreach_init_w : sreach_w (sk_init PROG)
  | sreach_step_w : forall s s', sreach_w s -> sstep_w s s' -> sreach_w s'.

  Lemma Inv_step : forall s s', Inv s -> sstep_w s s' ->
    Inv s' /\ (abs files w s' = abs files w s \/
               Pool.step n w readable (abs files w s) (abs files w s')).
  Proof.
    intros s s' HI Hs. unfold sstep_w in Hs. destruct HI as [j Hj | M ws g1 g2 D W].
    - rewrite (pre_steps j Hj) in Hs. destruct Hs as [Hs|[]]. subst s'. split.
      + destruct (Nat.eq_dec j 8) as [E|E].
        * subst j. rewrite pre_9. apply Inv_mk. apply wf_0.
        * apply Inv_pre. lia.
      + left. rewrite !pre_abs by lia. reflexivity.
    - destruct (step_mk _ _ _ _ _ _ W Hs) as [M' [ws' [g1' [g2' [D' [E1 [E2 E3]]]]]]].
      subst s'. split; [apply Inv_mk; exact E2|].
      rewrite !abs_mk. exact E3.
  Qed.

  Lemma sreach_Inv_w : forall s, sreach_w s -> Inv s.
  Proof.
    intros s H. induction H as [|s s' Hr IH Hs].
    - apply (Inv_pre 0). lia.
    - apply (Inv_step s s' IH Hs).
  Qed.

  Theorem skel_abs_init_w : abs files w (sk_init PROG) = Pool.init files w.
  Proof. apply (pre_abs 0). lia. Qed.

  Theorem skel_simulates_pool_w : forall s s', sreach_w s -> sstep_w s s' ->
    abs files w s' = abs files w s \/
    Pool.step (length files) w readable (abs files w s) (abs files w s').
  Proof.
    intros s s' Hr Hs. apply (Inv_step s s' (sreach_Inv_w s Hr) Hs).
  Qed.

  Theorem skel_no_panic_w : forall s, sreach_w s -> s_panic s = false.
  Proof.
    intros s Hr. destruct (sreach_Inv_w s Hr) as [j Hj | M ws g1 g2 D W].
    - apply pre_ok. lia.
    - reflexivity.
  Qed.

  Theorem skel_flags_agree_w : forall s, sreach_w s -> flags_agree s = true.
  Proof.
    intros s Hr. destruct (sreach_Inv_w s Hr) as [j Hj | M ws g1 g2 D W].
    - apply pre_ok. lia.
    - apply flags_agree_mk.
  Qed.

  Lemma star_snoc : forall a b c,
    Pool.star n w readable a b -> Pool.step n w readable b c -> Pool.star n w readable a c.
  Proof.
    intros a b c H1 H2. eapply star_trans; [exact H1|].
    eapply star_step; [exact H2 | apply star_refl].
  Qed.

  (* every reachable configuration abstracts to a Pool-reachable state *)
  Theorem skel_reach_pool_w : forall s, sreach_w s ->
    Pool.star (length files) w readable (Pool.init files w) (abs files w s).
  Proof.
    intros s Hr. induction Hr as [|s s' Hr IH Hs].
    - rewrite skel_abs_init_w. apply star_refl.
    - destruct (skel_simulates_pool_w s s' Hr Hs) as [E|E].
      + rewrite E. exact IH.
      + eapply star_snoc; eassumption.
  Qed.

  (* ---------------------------------------------------------------------- *)
  (* Deadlock freedom of the program under the generic semantics             *)
  (* ---------------------------------------------------------------------- *)

  Lemma stuck_gstep : forall s pre g post,
    sk_steps PROG files fails s = [] -> s_gors s = pre ++ g :: post ->
    gstep PROG files fails s (length pre) = [].
  Proof.
    intros s pre g post Hs E.
    destruct (gstep PROG files fails s (length pre)) as [|s' l] eqn:Hg; [reflexivity|].
    exfalso. assert (Hin : In s' (sk_steps PROG files fails s)).
    { eapply sk_steps_intro; [exact E|]. rewrite Hg. left. reflexivity. }
    rewrite Hs in Hin. destruct Hin.
  Qed.

  Definition main_blocked (M : mst) (g1 : option sst) (g2 : option cpc) (D : data) : Prop :=
    match fst (fst M) with
    | M_send _ => n <= length (d_q0 D)
    | M_krange => d_q1 D = [] /\ fl1 g2 = false
    | M_join => sdead g1 = false
    | M_dead => True
    | _ => False
    end.

  Lemma main_stuck : forall M ws g1 g2 D,
    gstep PROG files fails (mk_sk M ws g1 g2 D) 0 = [] -> main_blocked M g1 g2 D.
  Proof.
    intros M ws g1 g2 D H.
    unfold mk_sk, gstep in H. cbn [s_gors nth_error] in H.
    remember (wgof ws) as wg eqn:Ewg.
    remember (map wgor ws ++ olist (option_map sgor g1) ++ olist (option_map cgor g2)) as post eqn:Epost.
    destruct D as [q0 q1 q2 q3 mg skp]. destruct M as [[p c] o].
    unfold main_blocked. cbn [fst d_q0 d_q1].
    destruct p; try (destruct k as [|k]); try (destruct rest as [|f0 rest]); gsimp H; try discriminate H; try exact I.
    - destruct (length q0 <? n) eqn:Hlt; [cbv iota in H; discriminate H|]. apply Nat.ltb_ge. exact Hlt.
    - destruct (length q0 <? n) eqn:Hlt; [cbv iota in H; discriminate H|]. apply Nat.ltb_ge. exact Hlt.
    - destruct q1; [|cbv iota in H; discriminate H]. destruct (fl1 g2); [cbv iota in H; discriminate H|]. split; reflexivity.
    - destruct (sdead g1); [discriminate H | reflexivity].
  Qed.

  Definition worker_blocked (x : wst) (M : mst) (g2 : option cpc) (D : data) : Prop :=
    match fst (fst x) with
    | W_range => d_q0 D = [] /\ past_close_m (fst (fst M)) = false
    | W_s1 | W_s2 | W_s3 => w <= length (d_q2 D)
    | W_sr => n <= length (d_q1 D)
    | W_sp => n <= length (d_q3 D)
    | W_dead => True
    | _ => False
    end.

  Lemma worker_stuck : forall M l1 x l2 g1 g2 D,
    gstep PROG files fails (mk_sk M (l1 ++ x :: l2) g1 g2 D) (length (mgor M :: map wgor l1)) = [] ->
    worker_blocked x M g2 D.
  Proof.
    intros M l1 x l2 g1 g2 D H.
    rewrite mk_sk_worker in H. unfold raw, gstep in H. cbn [s_gors] in H.
    rewrite nth_error_mid in H.
    remember (mgor M :: map wgor l1) as pre eqn:Epre.
    remember (map wgor l2 ++ tailg g1 g2) as post eqn:Epost.
    remember (wgof (l1 ++ x :: l2)) as wg eqn:Ewg.
    destruct x as [[p c] o]. destruct D as [q0 q1 q2 q3 mg skp].
    unfold worker_blocked. cbn [fst d_q0 d_q1 d_q2 d_q3].
    destruct p; gsimp H; try discriminate H; try exact I.
    - destruct q0; [|cbv iota in H; discriminate H]. destruct (past_close_m (fst (fst M))); [cbv iota in H; discriminate H|]. auto.
    - destruct (fl2 g2); [cbv iota in H; discriminate H|].
      destruct (length q2 <? w) eqn:Hlt; [cbv iota in H; discriminate H|]. apply Nat.ltb_ge. exact Hlt.
    - destruct (fails "readFile" c); cbv iota in H; discriminate H.
    - destruct (fails "parser.ParseCtx" c); cbv iota in H; discriminate H.
    - destruct (fl2 g2); [cbv iota in H; discriminate H|].
      destruct (length q2 <? w) eqn:Hlt; [cbv iota in H; discriminate H|]. apply Nat.ltb_ge. exact Hlt.
    - destruct (fl2 g2); [cbv iota in H; discriminate H|].
      destruct (length q2 <? w) eqn:Hlt; [cbv iota in H; discriminate H|]. apply Nat.ltb_ge. exact Hlt.
    - destruct (fl1 g2); [cbv iota in H; discriminate H|].
      destruct (length q1 <? n) eqn:Hlt; [cbv iota in H; discriminate H|]. apply Nat.ltb_ge. exact Hlt.
    - destruct (fl3 g2); [cbv iota in H; discriminate H|].
      destruct (length q3 <? n) eqn:Hlt; [cbv iota in H; discriminate H|]. apply Nat.ltb_ge. exact Hlt.
  Qed.

  Definition status_blocked (x : sst) (g2 : option cpc) (D : data) : Prop :=
    match fst (fst x) with
    | S_select => (d_q2 D = [] /\ fl2 g2 = false) /\ (d_q3 D = [] /\ fl3 g2 = false)
    | S_dead => True
    | _ => False
    end.

  Lemma status_stuck : forall M ws x g2 D,
    gstep PROG files fails (mk_sk M ws (Some x) g2 D) (length (mgor M :: map wgor ws)) = [] ->
    status_blocked x g2 D.
  Proof.
    intros M ws x g2 D H.
    rewrite mk_sk_status in H. unfold raw, gstep in H. cbn [s_gors] in H.
    rewrite nth_error_mid in H.
    remember (mgor M :: map wgor ws) as pre eqn:Epre.
    remember (olist (option_map cgor g2)) as post eqn:Epost.
    remember (wgof ws) as wg eqn:Ewg.
    destruct D as [q0 q1 q2 q3 mg skp]. destruct x as [[p c] o].
    unfold status_blocked. cbn [fst d_q2 d_q3].
    destruct p; gsimp H; try discriminate H; try exact I.
    - apply app_eq_nil in H. destruct H as [Ha Hb]. apply app_eq_nil in Hb. destruct Hb as [Hb _].
      split.
      + destruct q2; [|cbv iota in Ha; discriminate Ha]. destruct (fl2 g2); [cbv iota in Ha; discriminate Ha|]. auto.
      + destruct q3; [|cbv iota in Hb; discriminate Hb]. destruct (fl3 g2); [cbv iota in Hb; discriminate Hb|]. auto.
    - destruct o; cbv iota in H; discriminate H.
  Qed.

  Definition closer_blocked (p : cpc) (ws : list wst) : Prop :=
    match p with
    | C_wait => wgof ws <> 0
    | C_dead => True
    | _ => False
    end.

  Lemma closer_stuck : forall M ws g1 p D,
    gstep PROG files fails (mk_sk M ws g1 (Some p) D)
      (length (mgor M :: map wgor ws ++ olist (option_map sgor g1))) = [] ->
    closer_blocked p ws.
  Proof.
    intros M ws g1 p D H.
    rewrite mk_sk_closer in H. unfold raw, gstep in H. cbn [s_gors] in H.
    rewrite nth_error_mid in H.
    remember (mgor M :: map wgor ws ++ olist (option_map sgor g1)) as pre eqn:Epre.
    remember (wgof ws) as wg eqn:Ewg.
    destruct D as [q0 q1 q2 q3 mg skp].
    unfold closer_blocked.
    destruct p; gsimp H; try discriminate H; try exact I.
    destruct (wg =? 0) eqn:Hz; [cbv iota in H; discriminate H|]. apply Nat.eqb_neq in Hz. subst wg. exact Hz.
  Qed.

  Lemma pendings_pos : forall ws, pendings ws <> 0 ->
    exists l1 x l2, ws = l1 ++ x :: l2 /\ wpend (fst (fst x)) = 1.
  Proof.
    induction ws as [|x ws IH]; intros H; [exfalso; apply H; reflexivity|].
    change (pendings (x :: ws)) with (wpend (fst (fst x)) + pendings ws) in H.
    destruct (wpend (fst (fst x))) as [|[|k]] eqn:Ex.
    - destruct IH as [l1 [y [l2 [E Hy]]]]; [exact H|].
      exists (x :: l1), y, l2. subst ws. split; [reflexivity | exact Hy].
    - exists [], x, ws. split; [reflexivity | exact Ex].
    - exfalso. destruct x as [[[] ?] ?]; cbn in Ex; lia.
  Qed.

  Lemma pendings0_in : forall ws x, pendings ws = 0 -> In x ws -> wpend (fst (fst x)) = 0.
  Proof.
    intros ws x H Hin. apply in_split in Hin. destruct Hin as [l1 [l2 E]]. subst ws.
    rewrite pendings_mid in H. lia.
  Qed.

  Theorem skel_stuck_finished_w : forall s, sreach_w s ->
    sk_steps PROG files fails s = [] -> finished s = true.
  Proof.
    intros s Hr Hs.
    pose proof (skel_reach_pool_w s Hr) as Hp.
    pose proof (sreach_Inv_w s Hr) as HI.
    destruct HI as [j Hj | M ws g1 g2 D W].
    { rewrite (pre_steps j Hj) in Hs. discriminate Hs. }
    rewrite abs_mk in Hp. apply pool_invariant in Hp.
    (* who is blocked *)
    pose proof (main_stuck M ws g1 g2 D (stuck_gstep _ [] _ _ Hs eq_refl)) as Bm.
    assert (Bw : forall l1 x l2, ws = l1 ++ x :: l2 -> worker_blocked x M g2 D).
    { intros l1 x l2 E. subst ws. apply (worker_stuck M l1 x l2 g1 g2 D).
      apply (stuck_gstep _ (mgor M :: map wgor l1) (wgor x) (map wgor l2 ++ tailg g1 g2) Hs).
      rewrite mk_sk_worker. reflexivity. }
    assert (Bs : forall x, g1 = Some x -> status_blocked x g2 D).
    { intros x E. subst g1. apply (status_stuck M ws x g2 D).
      apply (stuck_gstep _ (mgor M :: map wgor ws) (sgor x) (olist (option_map cgor g2)) Hs).
      rewrite mk_sk_status. reflexivity. }
    assert (Bc : forall p, g2 = Some p -> closer_blocked p ws).
    { intros p E. subst g2. apply (closer_stuck M ws g1 p D).
      apply (stuck_gstep _ (mgor M :: map wgor ws ++ olist (option_map sgor g1)) (cgor p) [] Hs).
      rewrite mk_sk_closer. reflexivity. }
    clear Hs.
    destruct W as [W1 W2 W3 W4 W5 W6].
    destruct M as [[p c] o]. destruct D as [q0 q1 q2 q3 mg skp].
    unfold main_blocked in Bm. cbn [fst d_q0 d_q1] in *.
    (* main cannot be blocked on its send: the buffer has room (PoolFacts) *)
    assert (Hlate : has_g2 p = true).
    { destruct p; try (exfalso; exact Bm); try reflexivity.
      exfalso. destruct (@inv_send_file_ok n w readable files eq_refl _ c rest Hp eq_refl) as [Hlt _].
      unfold absd in Hlt. cbn [fq rq pq d_q0 d_q1 d_q3] in Hlt. unfold file in Hlt. lia. }
    assert (Hpc : past_close_m p = true) by (destruct p; try discriminate Hlate; reflexivity).
    rewrite Hlate in W3. destruct g2 as [cp|]; [|discriminate W3].
    assert (Hg1 : has_g1 p = true) by (destruct p; try discriminate Hlate; reflexivity).
    rewrite Hg1 in W2. destruct g1 as [x|]; [|discriminate W2].
    assert (Hlen : length ws = w) by (destruct p; try discriminate Hlate; exact W1).
    specialize (Bs x eq_refl). specialize (Bc cp eq_refl).
    destruct x as [[sp sc] so]. unfold status_blocked in Bs. cbn [fst d_q2 d_q3] in Bs.
    unfold closer_blocked in Bc.
    destruct cp; try (exfalso; exact Bc).
    - (* the closer waits: some worker has not called wg.Done(); it is blocked on a full statusChan,
         which the status updater would drain *)
      exfalso.
      assert (Hpd : pendings ws <> 0) by (unfold wgof in Bc; lia).
      destruct (pendings_pos ws Hpd) as [l1 [y [l2 [E Hy]]]].
      pose proof (Bw l1 y l2 E) as By. subst ws.
      rewrite absd_worker in Hp.
      destruct y as [[wp wc] wo]. unfold worker_blocked in By. cbn [fst d_q0 d_q1 d_q2 d_q3] in By, Hy.
      assert (Hfull : w <= length q2 -> False).
      { intros H5.
        assert (Hw1 : 1 <= w) by (rewrite <- Hlen, app_length; cbn [length]; lia).
        destruct sp; try (exfalso; exact Bs).
        - destruct Bs as [[E2 _] _]. subst q2. cbn [length] in H5. lia.
        - pose proof (@inv_gexited w readable files _ Hp eq_refl) as Hsc. discriminate Hsc. }
      destruct wp; try (exfalso; exact By); try discriminate Hy; try (apply Hfull; exact By).
      + destruct By as [_ By]. rewrite Hpc in By. discriminate By.
      + destruct (@inv_send_result_ok n w readable files eq_refl _ _ _ _ Hp eq_refl) as [Hlt _].
        cbn [fq rq pq d_q0 d_q1 d_q3] in Hlt. unfold file in Hlt. lia.
      + destruct (@inv_send_progress_ok n w readable files eq_refl _ _ _ _ Hp eq_refl) as [Hlt _].
        cbn [fq rq pq d_q0 d_q1 d_q3] in Hlt. unfold file in Hlt. lia.
    - (* the closer has finished: everything is closed *)
      assert (Esp : sp = S_dead).
      { destruct sp; try (exfalso; exact Bs); try reflexivity.
        destruct Bs as [[_ F] _]. discriminate F. }
      subst sp.
      assert (Ep : p = M_dead).
      { destruct p; try discriminate Hlate; try (exfalso; exact Bm); try reflexivity.
        - destruct Bm as [_ F]. discriminate F.
        - discriminate Bm. }
      subst p.
      assert (Hws : forall y, In y ws -> fst (fst y) = W_dead).
      { intros y Hin. pose proof (pendings0_in ws y (W4 eq_refl) Hin) as Hy.
        apply in_split in Hin. destruct Hin as [l1 [l2 E]].
        pose proof (Bw l1 y l2 E) as By.
        destruct y as [[wp wc] wo]. unfold worker_blocked in By. cbn [fst] in *.
        destruct wp; try discriminate Hy; try (exfalso; exact By). reflexivity. }
      unfold finished, mk_sk. cbn [s_gors forallb mgor mlive g_live negb andb].
      rewrite forallb_app. apply andb_true_iff. split; [|reflexivity].
      apply forallb_forall. intros g Hin. apply in_map_iff in Hin.
      destruct Hin as [y [Ey Hin]]. subst g. specialize (Hws y Hin).
      destruct y as [[wp wc] wo]. cbn [fst] in Hws. subst wp. reflexivity.
  Qed.

  (* ---------------------------------------------------------------------- *)
  (* Transfer of the results about Pool.v to the program                     *)
  (* ---------------------------------------------------------------------- *)

  Lemma abs_merged : forall s, merged (abs files w s) = s_merged s /\ skipped (abs files w s) = s_skipped s.
  Proof. intros s. split; reflexivity. Qed.

  Lemma finished_main_done : forall s, sreach_w s -> finished s = true -> main (abs files w s) = Done.
  Proof.
    intros s Hr Hf. destruct (sreach_Inv_w s Hr) as [j Hj | M ws g1 g2 D W].
    - exfalso. revert Hf.
      do 9 (destruct j as [|j]; [vm_compute; discriminate|]). lia.
    - rewrite abs_mk. unfold absd. cbn [main].
      unfold finished, mk_sk in Hf. cbn [s_gors forallb] in Hf.
      apply andb_true_iff in Hf. destruct Hf as [Hf _].
      destruct M as [[p c] o]. destruct p; try discriminate Hf. reflexivity.
  Qed.

  (* once Initialize has returned (in particular in every finished configuration): the merged list is
     a permutation of the readable files, every file was merged or skipped, the merge order is one a
     reorder buffer with w places can produce, and the status updater has returned *)
  Theorem skel_result_w : forall s, 1 <= w -> sreach_w s -> main (abs files w s) = Done ->
    Permutation.Permutation (s_merged s) (filter readable files) /\
    Permutation.Permutation files (s_merged s ++ s_skipped s) /\
    buffered w [] (filter readable files) (s_merged s) /\
    status (abs files w s) = GExited.
  Proof.
    intros s H5 Hr Hd. pose proof (skel_reach_pool_w s Hr) as Hp.
    destruct (@inv_delivers n w readable files eq_refl _ H5 (@pool_invariant files w readable _ Hp) Hd) as [P1 P2].
    split; [exact P1 | split; [exact P2 | split]].
    - exact (@pool_orders_exact files w readable _ H5 Hp Hd).
    - exact (@pool_quiescent files w readable _ Hp Hd).
  Qed.

  Corollary skel_finished_result_w : forall s, 1 <= w -> sreach_w s -> finished s = true ->
    Permutation.Permutation (s_merged s) (filter readable files) /\
    Permutation.Permutation files (s_merged s ++ s_skipped s) /\
    buffered w [] (filter readable files) (s_merged s).
  Proof.
    intros s Hw Hr Hf.
    destruct (skel_result_w s Hw Hr (finished_main_done s Hr Hf)) as [P1 [P2 [P3 _]]]. auto.
  Qed.

  (* a maximal run ends in a finished configuration with these results *)
  Corollary skel_stuck_result_w : forall s, 1 <= w -> sreach_w s -> sk_steps PROG files fails s = [] ->
    finished s = true /\
    Permutation.Permutation (s_merged s) (filter readable files) /\
    Permutation.Permutation files (s_merged s ++ s_skipped s) /\
    buffered w [] (filter readable files) (s_merged s).
  Proof.
    intros s Hw Hr Hs. pose proof (skel_stuck_finished_w s Hr Hs) as Hf.
    split; [exact Hf | exact (skel_finished_result_w s Hw Hr Hf)].
  Qed.

End SimW.


(* ---------------------------------------------------------------------- *)
(* The extracted program: numWorkers = 5                                   *)
(* ---------------------------------------------------------------------- *)

Section Sim.
  Variable files : list nat.
  Variable fails : bytes -> nat -> bool.

  (* [readable fails f] (defined above) =
     negb (fails "readFile" f) && negb (fails "parser.ParseCtx" f) *)
  Notation readable := (readable fails).

  Definition sstep (s s' : sk) : Prop := In s' (sk_steps pool_program_modelled files fails s).

  Inductive sreach : sk -> Prop :=
  | sreach_init : sreach (sk_init pool_program_modelled)
  | sreach_step : forall s s', sreach s -> sstep s s' -> sreach s'.

  Lemma sreach_5 : forall s, sreach s -> sreach_w "5" files fails s.
  Proof.
    intros s H. induction H as [|s s' H IH Hs].
    - exact (sreach_init_w "5" files fails).
    - exact (sreach_step_w "5" files fails s s' IH Hs).
  Qed.

  Theorem skel_abs_init : abs files 5 (sk_init pool_program_modelled) = Pool.init files 5.
  Proof. exact (skel_abs_init_w "5" 5 files fails). Qed.

  Theorem skel_simulates_pool : forall s s', sreach s -> sstep s s' ->
    abs files 5 s' = abs files 5 s \/
    Pool.step (length files) 5 readable (abs files 5 s) (abs files 5 s').
  Proof.
    intros s s' Hr Hs. exact (skel_simulates_pool_w "5" 5 eq_refl files fails s s' (sreach_5 s Hr) Hs).
  Qed.

  Theorem skel_no_panic : forall s, sreach s -> s_panic s = false.
  Proof. intros s Hr. exact (skel_no_panic_w "5" 5 eq_refl files fails s (sreach_5 s Hr)). Qed.

  Theorem skel_flags_agree : forall s, sreach s -> flags_agree s = true.
  Proof. intros s Hr. exact (skel_flags_agree_w "5" 5 eq_refl files fails s (sreach_5 s Hr)). Qed.

  (* every reachable configuration abstracts to a Pool-reachable state *)
  Theorem skel_reach_pool : forall s, sreach s ->
    Pool.star (length files) 5 readable (Pool.init files 5) (abs files 5 s).
  Proof. intros s Hr. exact (skel_reach_pool_w "5" 5 eq_refl files fails s (sreach_5 s Hr)). Qed.

  Corollary skel_reachable : forall s, sreach s -> Pool.reachable files 5 readable (abs files 5 s).
  Proof. exact skel_reach_pool. Qed.

  (* deadlock freedom of the program under the generic semantics *)
  Theorem skel_stuck_finished : forall s, sreach s ->
    sk_steps pool_program_modelled files fails s = [] -> finished s = true.
  Proof.
    intros s Hr Hs. exact (skel_stuck_finished_w "5" 5 eq_refl files fails s (sreach_5 s Hr) Hs).
  Qed.

  (* once Initialize has returned: the merged list is a permutation of the readable files, every file was
     merged or skipped, the merge order is one a reorder buffer with 5 places produces
     (PoolFacts.pool_merge_orders_iff), and the status updater has returned *)
  Theorem skel_result : forall s, sreach s -> main (abs files 5 s) = Done ->
    Permutation.Permutation (s_merged s) (filter readable files) /\
    Permutation.Permutation files (s_merged s ++ s_skipped s) /\
    buffered 5 [] (filter readable files) (s_merged s) /\
    status (abs files 5 s) = GExited.
  Proof.
    intros s Hr Hd.
    assert (H5 : 1 <= 5) by lia.
    exact (skel_result_w "5" 5 eq_refl files fails s H5 (sreach_5 s Hr) Hd).
  Qed.

  Corollary skel_finished_result : forall s, sreach s -> finished s = true ->
    Permutation.Permutation (s_merged s) (filter readable files) /\
    Permutation.Permutation files (s_merged s ++ s_skipped s) /\
    buffered 5 [] (filter readable files) (s_merged s).
  Proof.
    intros s Hr Hf.
    assert (H5 : 1 <= 5) by lia.
    exact (skel_finished_result_w "5" 5 eq_refl files fails s H5 (sreach_5 s Hr) Hf).
  Qed.

  (* a maximal run ends in a finished configuration with these results *)
  Corollary skel_stuck_result : forall s, sreach s ->
    sk_steps pool_program_modelled files fails s = [] ->
    finished s = true /\
    Permutation.Permutation (s_merged s) (filter readable files) /\
    Permutation.Permutation files (s_merged s ++ s_skipped s) /\
    buffered 5 [] (filter readable files) (s_merged s).
  Proof.
    intros s Hr Hs.
    assert (H5 : 1 <= 5) by lia.
    exact (skel_stuck_result_w "5" 5 eq_refl files fails s H5 (sreach_5 s Hr) Hs).
  Qed.

  (* with distinct files: exactly the readable files are merged, each once *)
  Corollary skel_finished_exactly_once : forall s, NoDup files -> sreach s -> finished s = true ->
    NoDup (s_merged s) /\ (forall f, In f (s_merged s) <-> In f files /\ readable f = true).
  Proof.
    intros s Hnd Hr Hf. destruct (skel_finished_result s Hr Hf) as [P1 _]. split.
    - eapply Permutation.Permutation_NoDup; [apply Permutation.Permutation_sym; exact P1|].
      apply NoDup_filter. exact Hnd.
    - intros f. rewrite <- filter_In. split; intros Hin.
      + eapply Permutation.Permutation_in; eassumption.
      + eapply Permutation.Permutation_in; [apply Permutation.Permutation_sym|]; eassumption.
  Qed.

  (* the same for the program the translator extracted (gen/Tables.v) *)
  Corollary skel_simulates_pool_extracted : forall s s', sreach s ->
    In s' (sk_steps pool_program files fails s) ->
    abs files 5 s' = abs files 5 s \/
    Pool.step (length files) 5 readable (abs files 5 s) (abs files 5 s').
  Proof. rewrite pool_program_matches. exact skel_simulates_pool. Qed.
End Sim.

Print Assumptions skel_abs_init.
Print Assumptions skel_simulates_pool.
Print Assumptions skel_no_panic.
Print Assumptions skel_flags_agree.
Print Assumptions skel_reach_pool.
Print Assumptions skel_stuck_finished.
Print Assumptions skel_result.
Print Assumptions skel_finished_result.
Print Assumptions skel_stuck_result.
Print Assumptions skel_finished_exactly_once.
Print Assumptions skel_simulates_pool_extracted.
Print Assumptions skel_simulates_pool_w.
Print Assumptions skel_stuck_finished_w.
