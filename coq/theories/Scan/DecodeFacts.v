(* C05/C06 stage 1: under the tree-sitter-java shape of a construct, the entity the builder creates
   carries exactly the attributes written in the source (as specified through field names). *)
From CPF Require Import Base.Bytes Base.BytesFacts Scan.Cst Scan.Build Scan.BuildFacts Scan.Decode.
From CPF Require Import gen.Tables.
From Coq Require Import Lia.
Open Scope bs_scope.

#[local] Arguments content : simpl never.
#[local] Arguments stmt_id : simpl never.
#[local] Arguments method_id_pre : simpl never.
#[local] Arguments is_java_source_file : simpl never.

(* ---------- basic facts about the vocabulary ---------- *)
Lemma is_ty_eq t k : is_ty t k = true -> c_ty k = t.
Proof. unfold is_ty. apply bytes_eqb_true. Qed.

Lemma has_field_eq f k : has_field f k = true -> c_field k = Some f.
Proof.
  unfold has_field. destruct (c_field k) as [g|]; [|discriminate].
  intro H. apply bytes_eqb_true in H. subst. reflexivity.
Qed.

Lemma no_field_eq k : no_field k = true -> c_field k = None.
Proof. unfold no_field. destruct (c_field k); [discriminate|reflexivity]. Qed.

Lemma tok_eq t k : tok t k = true -> c_ty k = t /\ c_named k = false /\ c_field k = None.
Proof.
  unfold tok. intro H. apply andb_true_iff in H as [H H3]. apply andb_true_iff in H as [H1 H2].
  repeat split; [apply is_ty_eq, H1|apply negb_true_iff, H2|apply no_field_eq, H3].
Qed.

(* ---------- comments and parts ---------- *)
Lemma filter_comm {A} (p q : A -> bool) l : filter p (filter q l) = filter q (filter p l).
Proof.
  induction l as [|x l IH]; [reflexivity|]. cbn [filter].
  destruct (q x) eqn:Q, (p x) eqn:P; cbn [filter]; rewrite ?Q, ?P, IH; reflexivity.
Qed.

Lemma filter_idem {A} (p : A -> bool) l : filter p (filter p l) = filter p l.
Proof.
  induction l as [|x l IH]; [reflexivity|]. cbn [filter].
  destruct (p x) eqn:P; cbn [filter]; rewrite ?P, IH; reflexivity.
Qed.

Lemma filter_andb {A} (p q : A -> bool) l : filter (fun x => p x && q x) l = filter q (filter p l).
Proof.
  induction l as [|x l IH]; [reflexivity|]. cbn [filter].
  destruct (p x) eqn:P; cbn [filter andb]; [destruct (q x)|]; rewrite IH; reflexivity.
Qed.

(* the named parts are the named ones among the parts *)
Lemma named_parts_eq n : named_parts n = filter c_named (parts n).
Proof. unfold named_parts, named_kids, parts. apply filter_comm. Qed.

Lemma parts_all n : forallb not_comment (parts n) = true.
Proof.
  unfold parts. induction (c_kids n) as [|k r IH]; [reflexivity|]. cbn [filter].
  destruct (not_comment k) eqn:E; [cbn [forallb]; rewrite E, IH; reflexivity|exact IH].
Qed.

(* a node whose type is not a comment type is not a comment *)
Lemma not_comment_ty k :
  bytes_eqb (c_ty k) "block_comment" = false -> bytes_eqb (c_ty k) "line_comment" = false ->
  not_comment k = true.
Proof. unfold not_comment, is_comment, is_ty. intros -> ->. reflexivity. Qed.

Lemma comment_not_assign k : not_comment k = false -> is_ty "=" k = false.
Proof.
  unfold not_comment, is_comment, is_ty. intro H. apply negb_false_iff in H.
  apply orb_true_iff in H as [H|H]; apply bytes_eqb_true in H; rewrite H; vm_compute; reflexivity.
Qed.

(* under [comments_ok] the first child carrying a field name is a part *)
Lemma comments_after_find f : forall ks seen,
  comments_after seen ks = true -> existsb (has_field f) seen = false ->
  find (has_field f) ks = find (has_field f) (filter not_comment ks).
Proof.
  induction ks as [|k r IH]; intros seen Hc Hs; [reflexivity|].
  cbn [comments_after] in Hc. cbn [find filter]. destruct (not_comment k) eqn:Ek.
  - cbn [find]. destruct (has_field f k) eqn:Ef; [reflexivity|].
    apply (IH (k :: seen) Hc). cbn [existsb]. rewrite Ef, Hs. reflexivity.
  - apply andb_true_iff in Hc as [Hk Hr].
    assert (Ef : has_field f k = false).
    { unfold has_field. destruct (c_field k) as [g|] eqn:Eg; [|reflexivity].
      destruct (bytes_eqb g f) eqn:E; [|reflexivity].
      apply bytes_eqb_true in E. subst g. rewrite Hs in Hk. discriminate Hk. }
    rewrite Ef. apply (IH seen Hr Hs).
Qed.

Lemma child_by_field_parts n f :
  comments_ok n = true -> child_by_field n f = find (has_field f) (parts n).
Proof. intro H. exact (comments_after_find f (c_kids n) [] H eq_refl). Qed.

Lemma find_field_parts n f :
  comments_ok n = true ->
  find (fun k => match c_field k with Some g => bytes_eqb g f | None => false end) (c_kids n)
  = find (fun k => match c_field k with Some g => bytes_eqb g f | None => false end) (parts n).
Proof. exact (child_by_field_parts n f). Qed.

(* the initializer loop of the builder sees the parts only *)
Lemma init_text_parts src : forall ks v,
  init_text src ks v = init_text src (filter not_comment ks) v.
Proof.
  induction ks as [|k r IH]; intro v; [reflexivity|]. cbn [init_text filter].
  destruct (not_comment k) eqn:E.
  - cbn [init_text]. rewrite filter_idem. apply IH.
  - rewrite (comment_not_assign k E). apply IH.
Qed.

(* ---------- automation ---------- *)
(* evaluate comparisons of literal byte strings *)
Ltac ev_eqb :=
  repeat match goal with
  | |- context [bytes_eqb ?a ?b] =>
      let v := eval vm_compute in (bytes_eqb a b) in
      match v with
      | true => change (bytes_eqb a b) with true
      | false => change (bytes_eqb a b) with false
      end
  | |- context [contains ?a ?b] =>
      let v := eval vm_compute in (contains a b) in
      match v with
      | true => change (contains a b) with true
      | false => change (contains a b) with false
      end
  end.

(* break a shape hypothesis into atomic facts about the children *)
Ltac split_shape H :=
  repeat match type of H with
  | context [match ?l with [] => _ | _ :: _ => _ end] => destruct l; try discriminate H
  end;
  repeat match goal with
  | H0 : _ && _ = true |- _ => apply andb_true_iff in H0; destruct H0
  end.

Ltac atoms :=
  repeat match goal with
  | H : tok _ _ = true |- _ => apply tok_eq in H; destruct H as [? [? ?]]
  | H : is_ty _ _ = true |- _ => apply is_ty_eq in H
  | H : has_field _ _ = true |- _ => apply has_field_eq in H
  | H : no_field _ = true |- _ => apply no_field_eq in H
  | H : negb _ = true |- _ => apply negb_true_iff in H
  | H : is_ty _ _ = false |- _ => unfold is_ty in H
  end.

(* use the atomic facts to evaluate the tests of the goal *)
Ltac use_atoms :=
  unfold is_ty, has_field, no_field;
  repeat match goal with
  | H : c_ty ?k = _ |- context [c_ty ?k] => rewrite H
  | H : c_field ?k = _ |- context [c_field ?k] => rewrite H
  | H : c_named ?k = _ |- context [c_named ?k] => rewrite H
  | H : bytes_eqb (c_ty ?k) ?t = false |- context [bytes_eqb (c_ty ?k) ?t] => rewrite H
  | H : contains ?s (c_ty ?k) = _ |- context [contains ?s (c_ty ?k)] => rewrite H
  end;
  ev_eqb; cbn [andb orb negb].

(* the head of [entities_of]: dispatch on the node type *)
Ltac dispatch Hty :=
  unfold entities_of; rewrite Hty; ev_eqb; cbn [orb].

(* ================================================================== *)
(* binary_expression                                                   *)
(* ================================================================== *)
Theorem binop_kind_table :
  List.map (fun p => binop_kind (fst p)) java_binops = List.map (fun p => Some (snd p)) java_binops
  /\ List.map fst java_binops =
       ["+"; "-"; "*"; "/"; ">"; "<"; ">="; "<="; "%"; ">>"; "<<"; "!="; "=="; "&"; "&&"; "||"; "|"; ">>>"; "^"]
  /\ List.map (fun op => binop_kind op)
       ["+"; "-"; "*"; "/"; ">"; "<"; ">="; "<="; "%"; ">>"; "<<"; "!="; "=="; "&"; "&&"; "||"; "|"; ">>>"; "^"]
     = [Some "add_expression"; Some "sub_expression"; Some "mul_expression"; Some "div_expression";
        Some "comp_expression"; Some "comp_expression"; Some "comp_expression"; Some "comp_expression";
        Some "rem_expression"; Some "right_shift_expression"; Some "left_shift_expression";
        Some "ne_expression"; Some "eq_expression"; Some "bitwise_and_expression";
        Some "and_expression"; Some "or_expression"; Some "bitwise_or_expression";
        Some "bitwise_right_shift_expression"; Some "bitwise_xor_expression"].
Proof. repeat split; vm_compute; reflexivity. Qed.
Print Assumptions binop_kind_table.

Lemma binary_shape_kids n :
  binary_shape n = true ->
  exists l o r, c_kids n = [l; o; r]
    /\ child_by_field n "left" = Some l /\ child_by_field n "operator" = Some o
    /\ child_by_field n "right" = Some r.
Proof.
  unfold binary_shape. intro H. apply andb_true_iff in H as [Hty H].
  destruct (c_kids n) as [|l [|o [|r [|x ks]]]] eqn:Ek; try discriminate H. split_shape H. atoms.
  exists l, o, r. unfold child_by_field. rewrite Ek. cbn [find]. use_atoms. auto.
Qed.

Theorem binary_decoded src file prev n :
  binary_shape n = true ->
  exists es, entities_of src file prev n = Ok es
    /\ List.map n_type es = binary_kinds n
    /\ Forall (fun e => n_bin e = binary_spec src n) es
    /\ (length es = 2 \/ length es = 1).
Proof.
  intro Hs. pose proof Hs as Hs0. apply binary_shape_kids in Hs as [l [o [r [Ek [Hl [Ho Hr]]]]]].
  unfold binary_shape in Hs0. apply andb_true_iff in Hs0 as [Hty _]. apply is_ty_eq in Hty.
  dispatch Hty. unfold binary_kinds, binary_spec. rewrite Hl, Ho, Hr. cbn [deref bind].
  destruct (lookup_binop (c_ty o)) as [[idp k]|]; eexists; (split; [reflexivity|]); cbn [app map length];
    (split; [reflexivity|]); (split; [repeat constructor|]); auto.
Qed.
Print Assumptions binary_decoded.

(* ================================================================== *)
(* statements                                                          *)
(* ================================================================== *)
(* open a shape hypothesis [Hs : is_ty T n && match c_kids n with ... end = true] *)
Ltac open_shape Hs n Hty Ek :=
  apply andb_true_iff in Hs as [Hty Hs];
  destruct (c_kids n) eqn:Ek; [try discriminate Hs|];
  split_shape Hs; atoms; apply is_ty_eq in Hty || idtac.

Ltac read_kids Ek :=
  unfold field_text_opt, field_text, child_of_type, child, child_by_field, named_kids;
  rewrite ?Ek; cbn [nth_error find filter opt_content]; use_atoms;
  cbn [nth_error find filter opt_content].

(* open a shape hypothesis over the parts [Hs : is_ty T n && match parts n with ... end = true] *)
Ltac open_parts Hs n Hty Ek :=
  apply andb_true_iff in Hs as [Hty Hs]; apply is_ty_eq in Hty;
  destruct (parts n) eqn:Ek; [try discriminate Hs|];
  split_shape Hs; atoms.

Ltac read_parts Ek :=
  unfold part_at; rewrite ?named_parts_eq, ?Ek; cbn [nth_error find filter opt_content deref bind];
  use_atoms; cbn [nth_error find filter opt_content deref bind].

(* the builder reads the parts of an if statement by field name, as the specification does *)
Theorem if_decoded src file prev n :
  if_shape n = true ->
  entities_of src file prev n = Ok [stmt_entity "ifstmt" "IfStmt" src n file (if_spec src n)].
Proof.
  unfold if_shape. intro Hs. apply andb_true_iff in Hs as [Hs _]. apply andb_true_iff in Hs as [Hty _].
  apply is_ty_eq in Hty. dispatch Hty. reflexivity.
Qed.
Print Assumptions if_decoded.

(* under the shape the condition and the branches are there *)
Lemma if_spec_explicit src n :
  if_shape n = true ->
  exists c t, child_by_field n "condition" = Some c /\ child_by_field n "consequence" = Some t
    /\ if_spec src n = SIf (Some (content src c)) (content src t) (field_text src n "alternative").
Proof.
  unfold if_shape. intro Hs. apply andb_true_iff in Hs as [Hs Hk]. apply andb_true_iff in Hs as [Hty Hc].
  unfold if_spec, field_text_opt, field_text. rewrite !child_by_field_parts by exact Hc.
  destruct (parts n) eqn:Ek; [discriminate Hk|].
  split_shape Hk; atoms; cbn [find]; use_atoms; cbn [opt_content];
    do 2 eexists; repeat split; reflexivity.
Qed.

Theorem while_decoded src file prev n :
  while_shape n = true ->
  entities_of src file prev n = Ok [stmt_entity "while_stmt" "WhileStmt" src n file (while_spec src n)].
Proof.
  unfold while_shape. intro Hs. apply andb_true_iff in Hs as [Hs _]. apply andb_true_iff in Hs as [Hty _].
  apply is_ty_eq in Hty. dispatch Hty. reflexivity.
Qed.
Print Assumptions while_decoded.

Lemma while_spec_explicit src n :
  while_shape n = true ->
  exists c, child_by_field n "condition" = Some c /\ while_spec src n = SWhile (Some (content src c)).
Proof.
  unfold while_shape. intro Hs. apply andb_true_iff in Hs as [Hs Hk]. apply andb_true_iff in Hs as [Hty Hc].
  unfold while_spec, field_text_opt. rewrite !child_by_field_parts by exact Hc.
  destruct (parts n) eqn:Ek; [discriminate Hk|].
  split_shape Hk; atoms; cbn [find]; use_atoms; cbn [opt_content];
    eexists; split; reflexivity.
Qed.

Theorem do_decoded src file prev n :
  do_shape n = true ->
  entities_of src file prev n = Ok [stmt_entity "dowhile_stmt" "DoStmt" src n file (do_spec src n)]
  /\ exists c, child_by_field n "condition" = Some c /\ do_spec src n = SDo (Some (content src c)).
Proof.
  unfold do_shape. intro Hs. open_shape Hs n Hty Ek. split.
  - dispatch Hty; unfold do_spec; read_kids Ek; reflexivity.
  - unfold do_spec. read_kids Ek. eexists. split; reflexivity.
Qed.
Print Assumptions do_decoded.

Theorem for_decoded src file prev n :
  for_shape n = true ->
  entities_of src file prev n = Ok [stmt_entity "for_stmt" "ForStmt" src n file (for_spec src n)].
Proof.
  unfold for_shape. intro Hs. apply andb_true_iff in Hs as [Hty _]. apply is_ty_eq in Hty.
  dispatch Hty. reflexivity.
Qed.
Print Assumptions for_decoded.

Theorem break_decoded src file prev n :
  break_shape n = true ->
  entities_of src file prev n = Ok [stmt_entity "breakstmt" "BreakStmt" src n file (break_spec src n)].
Proof.
  unfold break_shape, jump_shape. intro Hs.
  open_shape Hs n Hty Ek; dispatch Hty; unfold break_spec, label_spec, last_ident_label;
    read_kids Ek; cbn [fold_left]; use_atoms; reflexivity.
Qed.
Print Assumptions break_decoded.

Theorem continue_decoded src file prev n :
  continue_shape n = true ->
  entities_of src file prev n = Ok [stmt_entity "continuestmt" "ContinueStmt" src n file (continue_spec src n)].
Proof.
  unfold continue_shape, jump_shape. intro Hs.
  open_shape Hs n Hty Ek; dispatch Hty; unfold continue_spec, label_spec, last_ident_label;
    read_kids Ek; cbn [fold_left]; use_atoms; reflexivity.
Qed.
Print Assumptions continue_decoded.

Theorem yield_decoded src file prev n :
  yield_shape n = true ->
  entities_of src file prev n = Ok [stmt_entity "yield" "YieldStmt" src n file (yield_spec src n)].
Proof.
  unfold yield_shape. intro Hs.
  open_parts Hs n Hty Ek; dispatch Hty; unfold yield_spec; read_parts Ek; reflexivity.
Qed.
Print Assumptions yield_decoded.

Theorem assert_decoded src file prev n :
  assert_shape n = true ->
  entities_of src file prev n = Ok [stmt_entity "assert" "AssertStmt" src n file (assert_spec src n)].
Proof.
  unfold assert_shape. intro Hs.
  open_parts Hs n Hty Ek; dispatch Hty; unfold assert_spec; read_parts Ek; reflexivity.
Qed.
Print Assumptions assert_decoded.

Theorem return_decoded src file prev n :
  return_shape n = true ->
  entities_of src file prev n = Ok [stmt_entity "return" "ReturnStmt" src n file (return_spec src n)].
Proof.
  unfold return_shape. intro Hs.
  open_parts Hs n Hty Ek; dispatch Hty; unfold return_spec; read_parts Ek; reflexivity.
Qed.
Print Assumptions return_decoded.

(* ---------- block ---------- *)
Lemma block_tail_split ks :
  block_tail ks = true ->
  exists m kl, ks = m ++ [kl] /\ tok "}" kl = true /\ filter c_named m = m.
Proof.
  induction ks as [|k r IH]; [discriminate|]. cbn [block_tail].
  destruct r as [|k' r'].
  - intro H. exists [], k. repeat split; assumption.
  - intro H. apply andb_true_iff in H as [Hn Hr]. destruct (IH Hr) as [m [kl [E [Ht Hf]]]].
    exists (k :: m), kl. rewrite E. repeat split; [exact Ht|]. cbn [filter]. rewrite Hn, Hf. reflexivity.
Qed.

(* D29 pinned: the builder's statement list is the block's statements (the named children that are
   not comments), in source order, wrapped in the texts of the two brace tokens *)
Theorem block_stmts_with_braces src file prev n :
  block_shape n = true -> block_braces src n = true ->
  entities_of src file prev n = Ok [stmt_entity "block" "BlockStmt" src n file (block_spec src n)]
  /\ block_spec src n = SBlock (["{"] ++ List.map (content src) (named_parts n) ++ ["}"]).
Proof.
  unfold block_shape, block_braces. intros Hs Hb. apply andb_true_iff in Hs as [Hty Hs]. apply is_ty_eq in Hty.
  split; [|reflexivity].
  dispatch Hty. unfold block_spec, block_stmts. rewrite named_parts_eq. unfold parts.
  destruct (c_kids n) as [|k0 r] eqn:Ek; [discriminate|].
  apply andb_true_iff in Hs as [Hk0 Hr]. apply block_tail_split in Hr as [m [kl [E [Hkl Hm]]]]. subst r.
  apply tok_eq in Hk0 as [Ht0 [Hn0 _]]. apply tok_eq in Hkl as [Htl [Hnl _]].
  assert (Hc0 : not_comment k0 = true) by (apply not_comment_ty; rewrite Ht0; reflexivity).
  assert (Hcl : not_comment kl = true) by (apply not_comment_ty; rewrite Htl; reflexivity).
  apply andb_true_iff in Hb as [Hb0 Hbl]. rewrite rev_app_distr in Hbl. cbn [rev app] in Hbl.
  apply bytes_eqb_true in Hb0, Hbl.
  cbn [filter]. rewrite Hc0. cbn [filter map]. rewrite Hn0, !filter_app. cbn [filter]. rewrite Hcl.
  cbn [filter]. rewrite Hnl, app_nil_r.
  rewrite (filter_comm c_named not_comment m), Hm.
  rewrite map_app. cbn [map]. rewrite Hb0, Hbl. reflexivity.
Qed.
Print Assumptions block_stmts_with_braces.

(* ---------- argument lists ---------- *)
Lemma args_tail_named ks :
  args_tail ks = true -> forall k, In k ks -> negb (punct_stop (c_ty k)) = c_named k.
Proof.
  induction ks as [|k r IH]; [discriminate|]. cbn [args_tail]. intros H x Hx.
  assert (Htok : forall t y, tok t y = true -> punct_stop t = true -> negb (punct_stop (c_ty y)) = c_named y).
  { intros t y Ht Hp. apply tok_eq in Ht as [Hy [Hn _]]. rewrite Hy, Hn, Hp. reflexivity. }
  destruct r as [|k' r'].
  - destruct Hx as [<-|[]]. apply (Htok ")"); [exact H|reflexivity].
  - apply andb_true_iff in H as [Hk Hr]. destruct Hx as [<-|Hx]; [|apply IH; assumption].
    destruct (c_named k) eqn:En; [exact Hk|]. rewrite <- En. apply (Htok ","); [exact Hk|reflexivity].
Qed.

Lemma arglist_nonpunct a :
  arglist_shape a = true ->
  filter (fun x => negb (punct_stop (c_ty x))) (c_kids a) = named_kids a.
Proof.
  unfold arglist_shape, named_kids. intro H. apply andb_true_iff in H as [_ H].
  destruct (c_kids a) as [|k0 r]; [discriminate|]. apply andb_true_iff in H as [H0 Hr].
  apply filter_ext_in. intros x [<-|Hx].
  - apply tok_eq in H0 as [Hy [Hn _]]. rewrite Hy, Hn. reflexivity.
  - apply (args_tail_named r Hr x Hx).
Qed.

(* what the builder keeps of a constructor's argument list: the named children that are not comments *)
Lemma arglist_args a :
  arglist_shape a = true ->
  filter (fun x => negb (punct_stop (c_ty x)) && not_comment x) (c_kids a) = named_parts a.
Proof.
  intro H. rewrite (filter_andb (fun x => negb (punct_stop (c_ty x))) not_comment).
  rewrite (arglist_nonpunct a H). reflexivity.
Qed.

Lemma arglist_ty a : arglist_shape a = true -> c_ty a = "argument_list".
Proof. unfold arglist_shape. intro H. apply andb_true_iff in H as [H _]. apply is_ty_eq, H. Qed.
Ltac arg_ty := match goal with H : arglist_shape ?a = true |- _ => pose proof (arglist_ty a H) end.

(* ---------- method_invocation ---------- *)
Theorem call_decoded src file prev n :
  call_shape n = true -> call_side src n = true ->
  exists e, entities_of src file prev n = Ok [e]
    /\ n_type e = "method_invocation"
    /\ n_name e = call_name_spec src n
    /\ n_argv e = call_args_spec src n.
Proof.
  unfold call_shape, call_side. intros Hs Hside. open_shape Hs n Hty Ek; arg_ty.
  - (* name(args) *)
    assert (Hal : child_by_field n "argument_list" = None) by (read_kids Ek; reflexivity).
    dispatch Hty. unfold extract_method_name. rewrite Hal. unfold is_ty at 1 2. rewrite Hty. ev_eqb.
    rewrite Ek. cbn [fold_left bind]. use_atoms.
    eexists. split; [reflexivity|]. cbn [n_type n_name n_argv]. split; [reflexivity|].
    unfold call_name_spec, call_args_spec, call_args. read_kids Ek. cbn [flat_map]. use_atoms.
    rewrite app_nil_r. split; reflexivity.
  - (* object.name(args) *)
    match goal with H : c_kids n = [?o; _; _; _] |- _ => rename o into ob end.
    assert (Hal : child_by_field n "argument_list" = None) by (read_kids Ek; reflexivity).
    assert (Hob : child_by_field n "object" = Some ob) by (read_kids Ek; reflexivity).
    rewrite Hob in Hside. unfold is_ty in Hside.
    dispatch Hty. unfold extract_method_name. rewrite Hal. unfold is_ty at 1 2. rewrite Hty. ev_eqb.
    rewrite Ek. cbn [fold_left bind].
    unfold call_name_spec, call_args_spec, call_args. rewrite Hob. read_kids Ek. cbn [flat_map]. use_atoms.
    rewrite app_nil_r.
    destruct (bytes_eqb (c_ty ob) "identifier") eqn:Eo.
    + destruct (content src ob) as [|b0 t0] eqn:Ec; [discriminate Hside|].
      eexists. split; [reflexivity|]. cbn [n_type n_name n_argv]. repeat split; reflexivity.
    + eexists. split; [reflexivity|]. cbn [n_type n_name n_argv]. repeat split; reflexivity.
Qed.
Print Assumptions call_decoded.

(* ---------- object_creation_expression ---------- *)
Theorem new_decoded src file prev n :
  new_shape n = true ->
  exists e, entities_of src file prev n = Ok [e]
    /\ n_type e = "ClassInstanceExpr"
    /\ n_name e = fst (new_spec src n)
    /\ n_new e = Some (new_spec src n).
Proof.
  unfold new_shape, new_type. intro Hs. open_shape Hs n Hty Ek; arg_ty;
    match goal with H : arglist_shape ?a = true |- _ => pose proof (arglist_args a H) as Hnp end;
    dispatch Hty; unfold new_attrs, new_spec; read_kids Ek; cbn [fold_left]; use_atoms;
    match goal with H : _ || _ = true |- _ => apply orb_true_iff in H; destruct H; atoms end;
    use_atoms; rewrite Hnp;
    (eexists; split; [reflexivity|]; cbn [n_type n_name n_new fst]; repeat split; reflexivity).
Qed.
Print Assumptions new_decoded.

(* ================================================================== *)
(* declarations                                                        *)
(* ================================================================== *)
Lemma skip_opt_cases p ks r :
  skip_opt p ks = r -> (exists k, ks = k :: r /\ p k = true) \/ ks = r.
Proof.
  destruct ks as [|k t]; cbn [skip_opt]; [auto|].
  destruct (p k) eqn:E; intros <-; [left; exists k; auto|right; reflexivity].
Qed.

(* name the result of a [skip_opt] stage and split on whether the optional child was there *)
Ltac stage Hs :=
  match type of Hs with
  | context [skip_opt ?p ?l] =>
      lazymatch l with
      | context [skip_opt] => fail
      | _ => let ks := fresh "ks" in let E := fresh "Es" in let Hp := fresh "Hp" in
             remember (skip_opt p l) as ks eqn:E; symmetry in E; apply skip_opt_cases in E;
             destruct E as [[? [E Hp]]|E]; cbv beta in *
      end
  end.

Lemma mods_ok_eq m : mods_ok m = true -> c_ty m = "modifiers" /\ c_field m = None.
Proof. unfold mods_ok. intro H. apply andb_true_iff in H as [H1 H2]. split; [apply is_ty_eq, H1|apply no_field_eq, H2]. Qed.

Ltac crack :=
  repeat match goal with
  | H : _ && _ = true |- _ => apply andb_true_iff in H; destruct H
  | H : context [match c_kids ?k with [] => _ | _ :: _ => _ end] |- _ =>
      let E := fresh "Ek" in destruct (c_kids k) eqn:E; try discriminate H
  | H : context [match ?l with [] => _ | _ :: _ => _ end] |- _ =>
      is_var l; destruct l; try discriminate H
  | H : context [match parts ?k with [] => _ | _ :: _ => _ end] |- _ =>
      let E := fresh "Ep" in destruct (parts k) eqn:E; try discriminate H
  | H : mods_ok _ = true |- _ => apply mods_ok_eq in H; destruct H
  end.

Ltac kids := repeat match goal with H : c_kids ?k = _ |- context [c_kids ?k] => rewrite H end.
Ltac norm :=
  repeat (progress (kids; use_atoms; cbn beta iota zeta;
                    cbn [nth_error find filter opt_content fold_left flat_map app map concat fst snd])).
Ltac unfold_specs :=
  unfold var_name_spec, var_type_spec, var_value_spec, var_scope_spec, visibility_spec, modifiers_text,
    annotations_spec, method_name_spec, method_ret_spec, method_params_spec, method_throws_spec,
    class_name_spec, class_super_spec, class_ifaces_spec,
    field_text_opt, field_text, child_of_type, child, child_by_field, named_kids.

(* a declarator whose parts are known: read its fields and its initializer off the parts *)
Ltac decl_parts src :=
  match goal with
  | Hc : comments_ok ?d = true, Ep : parts ?d = _ |- _ =>
      let Hnc := fresh "Hnc" in
      pose proof (parts_all d) as Hnc; rewrite Ep in Hnc; cbn [forallb] in Hnc; crack;
      rewrite ?(find_field_parts d) by exact Hc;
      rewrite ?(init_text_parts src (c_kids d));
      change (filter not_comment (c_kids d)) with (parts d);
      rewrite ?Ep;
      repeat match goal with H : not_comment ?k = true |- context [not_comment ?k] => rewrite H end
  end.

Theorem var_decoded src file prev n :
  var_shape n = true ->
  exists e, entities_of src file prev n = Ok [e]
    /\ n_type e = "variable_declaration"
    /\ n_name e = var_name_spec src n
    /\ n_dtype e = var_type_spec src n
    /\ n_value e = var_value_spec src n
    /\ n_scope e = var_scope_spec n
    /\ n_mod e = visibility_spec src n.
Proof.
  unfold var_shape. intro Hs. apply andb_true_iff in Hs as [Hty Hs].
  stage Hs; crack; unfold var_type_ok, declarator_shape in *; crack; atoms;
  apply orb_true_iff in Hty; destruct Hty as [Hty|Hty]; apply is_ty_eq in Hty;
  dispatch Hty; unfold var_attrs; norm; unfold declarator, child_by_field; decl_parts src; norm;
  cbn [init_text]; norm; decl_parts src; norm;
  (eexists; split; [reflexivity|]);
  cbn [n_type n_name n_dtype n_value n_scope n_mod]; unfold_specs; norm; decl_parts src; norm;
  rewrite ?app_nil_r; repeat match goal with |- context [if ?b then _ else _] => destruct b end;
  repeat split; reflexivity.
Qed.
Print Assumptions var_decoded.

(* ---------- method_declaration ---------- *)
Lemma extract_method_name_decl src n file :
  c_ty n = "method_declaration" ->
  exists idp, extract_method_name src n file = Ok (last_ident_label src n, idp).
Proof.
  intro Hty. unfold extract_method_name, last_ident_label. unfold is_ty at 1. rewrite Hty. ev_eqb. cbn [bind].
  match goal with |- context [fold_left ?f (c_kids n) ([], [])] =>
    assert (HF : forall l a ps, exists ps',
      fold_left f l (a, ps)
      = (fold_left (fun acc ch => if is_ty "identifier" ch then content src ch else acc) l a, ps'))
  end.
  { induction l as [|k l IH]; intros a ps; cbn [fold_left]; [eexists; reflexivity|].
    destruct (is_ty "identifier" k); [apply IH|]. destruct (is_ty "formal_parameters" k); apply IH. }
  destruct (HF (c_kids n) [] []) as [ps' E].
  match goal with |- context [fold_left ?f (c_kids n) ?i] => set (X := fold_left f (c_kids n) i) end.
  match type of E with _ = ?rhs => assert (E' : X = rhs) by exact E end.
  rewrite E'. eexists. reflexivity.
Qed.

Lemma params_fold src ps : forallb param_ok ps = true ->
  forall (m : bytes) (th at_ av an : list bytes),
  fold_left (fun '(mods, throws, argt, argv, annots) p =>
        if is_ty "formal_parameter" p then
          match child_by_field p "type", child_by_field p "name" with
          | Some pt, Some pn => (mods, throws, argt ++ [content src pt], argv ++ [content src pn], annots)
          | _, _ => (mods, throws, argt, argv, annots)
          end
        else (mods, throws, argt, argv, annots)) ps (m, th, at_, av, an)
  = (m, th,
     at_ ++ List.map (fun q => field_text src q "type") (filter (is_ty "formal_parameter") ps),
     av ++ List.map (fun q => field_text src q "name") (filter (is_ty "formal_parameter") ps), an).
Proof.
  induction ps as [|p ps IH]; intros Hok m th at_ av an.
  - cbn [fold_left filter map]. rewrite !app_nil_r. reflexivity.
  - cbn [forallb] in Hok. apply andb_true_iff in Hok as [Hp Hok]. cbn [fold_left filter].
    unfold param_ok in Hp. destruct (is_ty "formal_parameter" p).
    + unfold field_text. destruct (child_by_field p "type") as [pt|] eqn:Ept; [|discriminate].
      destruct (child_by_field p "name") as [pn|] eqn:Epn; [|discriminate].
      rewrite IH by exact Hok. cbn [map]. rewrite Ept, Epn, <- !app_assoc. reflexivity.
    + apply IH. exact Hok.
Qed.

Ltac method_cases Hs Hty :=
  unfold method_shape in Hs; apply andb_true_iff in Hs as [Hty Hs]; apply is_ty_eq in Hty;
  repeat (crack; try match goal with H : context [skip_opt _ _] |- _ => stage H end;
          try match goal with H : ?l = _ |- _ => is_var l; subst l end);
  unfold method_end, method_type_ok, formal_params_shape in *; crack;
  match goal with H : _ || _ = true |- _ => apply orb_true_iff in H; destruct H end; crack; atoms.

Lemma method_label_spec src n :
  method_shape n = true -> last_ident_label src n = method_name_spec src n.
Proof.
  intro Hs. method_cases Hs Hty. all: unfold last_ident_label; unfold_specs. all: norm. all: reflexivity.
Qed.

Lemma method_attrs_spec src n :
  method_shape n = true ->
  method_attrs src n =
    (modifiers_text src n, method_throws_spec src n,
     List.map fst (method_params_spec src n), List.map snd (method_params_spec src n),
     annotations_spec src n).
Proof.
  intro Hs. method_cases Hs Hty. all: unfold method_attrs; norm. all: rewrite params_fold by assumption. all: norm. all:
    unfold_specs; norm; rewrite !map_map; reflexivity.
Qed.

Theorem method_decoded src file prev n :
  method_shape n = true ->
  exists e, entities_of src file prev n = Ok [e]
    /\ n_type e = "method_declaration"
    /\ n_name e = method_name_spec src n
    /\ n_ret e = method_ret_spec src n
    /\ n_mod e = visibility_spec src n
    /\ n_argt e = List.map fst (method_params_spec src n)
    /\ n_argv e = List.map snd (method_params_spec src n)
    /\ n_throws e = method_throws_spec src n
    /\ n_annot e = annotations_spec src n
    /\ n_doc e = decl_javadoc src prev.
Proof.
  intro Hs. pose proof (method_label_spec src n Hs) as Hl. pose proof (method_attrs_spec src n Hs) as Ha.
  unfold method_shape in Hs. apply andb_true_iff in Hs as [Hty _]. apply is_ty_eq in Hty.
  destruct (extract_method_name_decl src n file Hty) as [idp Hemn].
  dispatch Hty. rewrite Hemn, Ha, Hl. cbn [bind]. eexists. split; [reflexivity|].
  cbn [n_type n_name n_ret n_mod n_argt n_argv n_throws n_annot n_doc]. repeat split; reflexivity.
Qed.
Print Assumptions method_decoded.

(* ---------- class_declaration ---------- *)
Ltac class_cases Hs Hty :=
  unfold class_shape in Hs; apply andb_true_iff in Hs as [Hty Hs]; apply is_ty_eq in Hty;
  repeat (crack; try match goal with H : context [skip_opt _ _] |- _ => stage H end;
          try match goal with H : ?l = _ |- _ => is_var l; subst l end);
  unfold superclass_shape, super_interfaces_shape, type_list_shape, is_nil in *; crack;
  try match goal with H : false = true |- _ => discriminate H end; atoms.

Lemma class_attrs_spec src n :
  class_shape n = true ->
  class_attrs src n =
    (modifiers_text src n, annotations_spec src n, class_super_spec src n, class_ifaces_spec src n)
  /\ exists nm, child_by_field n "name" = Some nm.
Proof.
  intro Hs. class_cases Hs Hty.
  all: split; [|unfold_specs; norm; eexists; reflexivity].
  all: unfold class_attrs; unfold_specs; norm; rewrite ?app_nil_r; reflexivity.
Qed.

Theorem class_decoded src file prev n :
  class_shape n = true ->
  exists e, entities_of src file prev n = Ok [e]
    /\ n_type e = "class_declaration"
    /\ n_name e = class_name_spec src n
    /\ n_mod e = visibility_spec src n
    /\ n_super e = class_super_spec src n
    /\ n_iface e = class_ifaces_spec src n
    /\ n_annot e = annotations_spec src n
    /\ n_doc e = decl_javadoc src prev.
Proof.
  intro Hs. destruct (class_attrs_spec src n Hs) as [Ha [nm Hnm]].
  unfold class_shape in Hs. apply andb_true_iff in Hs as [Hty _]. apply is_ty_eq in Hty.
  dispatch Hty. unfold class_name_spec, field_text. rewrite Hnm, Ha. cbn [deref bind]. eexists. split; [reflexivity|].
  cbn [n_type n_name n_mod n_super n_iface n_annot n_doc]. repeat split; reflexivity.
Qed.
Print Assumptions class_decoded.

(* ---------- the visibility keyword written among the modifiers ---------- *)
Definition ascii_nonspace (b : byte) : Prop := (code b <? 128)%N = true /\ ascii_space b = false.
(* a word: non-empty, ASCII, no white space *)
Definition word (w : bytes) : Prop := w <> [] /\ Forall ascii_nonspace w.
Definition is_vis (w : bytes) : bool :=
  bytes_eqb w "public" || bytes_eqb w "private" || bytes_eqb w "protected".

Definition rune1 (b : byte) : bool * bytes := (ascii_space b, [b]).

Lemma runes_f_ascii s : forall fuel,
  Forall (fun b => (code b <? 128)%N = true) s -> length s <= fuel ->
  runes_f fuel s = List.map rune1 s.
Proof.
  induction s as [|b r IH]; intros fuel Ha Hf.
  - destruct fuel; reflexivity.
  - destruct fuel as [|f]; [cbn [length] in Hf; lia|].
    inversion Ha as [|? ? Hb Hr]; subst. cbn [runes_f map].
    unfold space_width, rune_width. rewrite Hb. unfold rune1 at 1.
    destruct (ascii_space b); cbn [firstn skipn]; (rewrite IH; [reflexivity|exact Hr|cbn [length] in Hf; lia]).
Qed.

Lemma fields_aux_word w : forall rest cur incur,
  Forall ascii_nonspace w -> w <> [] ->
  fields_aux (List.map rune1 w ++ rest) cur incur = fields_aux rest (cur ++ w) true.
Proof.
  induction w as [|b w IH]; intros rest cur incur Hw Hne; [congruence|].
  inversion Hw as [|? ? [_ Hb] Hw']; subst. cbn [map app]. unfold rune1 at 1. rewrite Hb. cbn [fields_aux].
  destruct w as [|b' w'].
  - cbn [map app]. reflexivity.
  - rewrite IH by (try exact Hw'; discriminate). rewrite <- app_assoc. reflexivity.
Qed.

Lemma fields_join_words ws :
  Forall word ws -> fields (join " " ws) = ws.
Proof.
  intro Hws. unfold fields, runes.
  assert (Ha : Forall (fun b => (code b <? 128)%N = true) (join " " ws)).
  { induction Hws as [|w r [_ Hw] Hr IH]; [constructor|]. cbn [join]. destruct r as [|w' r'].
    - eapply Forall_impl; [|exact Hw]. intros b [Hb _]. exact Hb.
    - apply Forall_app. split; [eapply Forall_impl; [|exact Hw]; intros b [Hb _]; exact Hb|].
      constructor; [reflexivity|exact IH]. }
  rewrite runes_f_ascii by (try exact Ha; lia). clear Ha.
  induction Hws as [|w r [Hne Hw] Hr IH]; [reflexivity|]. cbn [join]. destruct r as [|w' r'].
  - rewrite <- (app_nil_r (map rune1 w)). rewrite fields_aux_word by assumption. reflexivity.
  - rewrite map_app. rewrite fields_aux_word by assumption. cbn [app map]. unfold rune1 at 1.
    change (ascii_space " ") with true. cbn [fields_aux]. rewrite IH. reflexivity.
Qed.

(* for a modifiers text made of words separated by single spaces, the extracted visibility is the
   first word among public / private / protected *)
Theorem extract_visibility_words ws :
  Forall word ws -> extract_visibility (join " " ws) = first_visibility ws.
Proof. intro H. unfold extract_visibility. rewrite fields_join_words by exact H. reflexivity. Qed.
Print Assumptions extract_visibility_words.

Theorem first_visibility_first ws :
  (exists pre w post, ws = pre ++ w :: post /\ is_vis w = true
                      /\ Forall (fun x => is_vis x = false) pre /\ first_visibility ws = w)
  \/ (Forall (fun x => is_vis x = false) ws /\ first_visibility ws = []).
Proof.
  induction ws as [|w r IH]; [right; split; [constructor|reflexivity]|].
  cbn [first_visibility]. fold (is_vis w). destruct (is_vis w) eqn:E.
  - left. exists [], w, r. repeat split; auto.
  - destruct IH as [[pre [v [post [E1 [E2 [E3 E4]]]]]]|[E1 E2]].
    + left. exists (w :: pre), v, post. subst r. repeat split; auto.
    + right. split; [constructor; assumption|exact E2].
Qed.
Print Assumptions first_visibility_first.

Example extract_visibility_example :
  extract_visibility "@Override static public final" = "public"
  /\ extract_visibility "static final" = "".
Proof. vm_compute. split; reflexivity. Qed.

(* ================================================================== *)
(* examples: hand-built CSTs over literal sources                      *)
(* ================================================================== *)
Module Examples.
(* anonymous token; token carrying a field; named node (row 0, column = start byte) *)
Definition T (ty : bytes) (sb eb : N) : cst := Cst ty false false None sb eb 0 sb [].
Definition TF (ty f : bytes) (sb eb : N) : cst := Cst ty false false (Some f) sb eb 0 sb [].
Definition L (ty : bytes) (f : option bytes) (sb eb : N) (kids : list cst) : cst :=
  Cst ty true false f sb eb 0 sb kids.

Definition bin_src : bytes := "a + b*2".
Definition bin_cst : cst :=
  L "binary_expression" None 0 7
    [L "identifier" (Some "left") 0 1 []; TF "+" "operator" 2 3;
     L "binary_expression" (Some "right") 4 7
       [L "identifier" (Some "left") 4 5 []; TF "*" "operator" 5 6;
        L "decimal_integer_literal" (Some "right") 6 7 []]].
Example binary_example :
  shape_of bin_cst = "binary"
  /\ decode bin_src None bin_cst
     = Some [("op", ["+"]); ("left", ["a"]); ("right", ["b*2"]);
             ("kinds", ["add_expression"; "binary_expression"])].
Proof. vm_compute. split; reflexivity. Qed.

Definition if_src : bytes := "if (x) y(); else z();".
Definition if_cst : cst :=
  L "if_statement" None 0 21
    [T "if" 0 2; L "parenthesized_expression" (Some "condition") 3 6 [];
     L "expression_statement" (Some "consequence") 7 11 []; T "else" 12 16;
     L "expression_statement" (Some "alternative") 17 21 []].
Example if_example :
  shape_of if_cst = "if"
  /\ if_spec if_src if_cst = SIf (Some "(x)") "y();" "z();"
  /\ decode if_src None if_cst = Some [("cond", ["(x)"]); ("then", ["y();"]); ("else", ["z();"])].
Proof. vm_compute. repeat split; reflexivity. Qed.

Definition if2_cst : cst :=
  L "if_statement" None 0 11
    [T "if" 0 2; L "parenthesized_expression" (Some "condition") 3 6 [];
     L "expression_statement" (Some "consequence") 7 11 []].
Example if_no_else_example :
  shape_of if2_cst = "if" /\ if_spec if_src if2_cst = SIf (Some "(x)") "y();" "".
Proof. vm_compute. split; reflexivity. Qed.

Definition while_src : bytes := "while (x) y();".
Definition while_cst : cst :=
  L "while_statement" None 0 14
    [T "while" 0 5; L "parenthesized_expression" (Some "condition") 6 9 [];
     L "expression_statement" (Some "body") 10 14 []].
Example while_example :
  shape_of while_cst = "while" /\ while_spec while_src while_cst = SWhile (Some "(x)").
Proof. vm_compute. split; reflexivity. Qed.

Definition do_src : bytes := "do y(); while (x);".
Definition do_cst : cst :=
  L "do_statement" None 0 18
    [T "do" 0 2; L "expression_statement" (Some "body") 3 7 []; T "while" 8 13;
     L "parenthesized_expression" (Some "condition") 14 17 []; T ";" 17 18].
Example do_example :
  shape_of do_cst = "do" /\ do_spec do_src do_cst = SDo (Some "(x)").
Proof. vm_compute. split; reflexivity. Qed.

Definition for_src : bytes := "for (i = 0; i < n; i++) f();".
Definition for_cst : cst :=
  L "for_statement" None 0 28
    [T "for" 0 3; T "(" 4 5; L "assignment_expression" (Some "init") 5 10 []; T ";" 10 11;
     L "binary_expression" (Some "condition") 12 17 []; T ";" 17 18;
     L "update_expression" (Some "update") 19 22 []; T ")" 22 23;
     L "expression_statement" (Some "body") 24 28 []].
Example for_example :
  shape_of for_cst = "for"
  /\ for_spec for_src for_cst = SFor (Some "i = 0") (Some "i < n") (Some "i++").
Proof. vm_compute. split; reflexivity. Qed.

Definition for2_src : bytes := "for (;;) f();".
Definition for2_cst : cst :=
  L "for_statement" None 0 13
    [T "for" 0 3; T "(" 4 5; T ";" 5 6; T ";" 6 7; T ")" 7 8;
     L "expression_statement" (Some "body") 9 13 []].
Example for_empty_example :
  shape_of for2_cst = "for" /\ for_spec for2_src for2_cst = SFor None None None.
Proof. vm_compute. split; reflexivity. Qed.

Definition break_src : bytes := "break outer;".
Definition break_cst : cst :=
  L "break_statement" None 0 12 [T "break" 0 5; L "identifier" None 6 11 []; T ";" 11 12].
Example break_example :
  shape_of break_cst = "break" /\ break_spec break_src break_cst = SBreak "outer".
Proof. vm_compute. split; reflexivity. Qed.

Definition continue_src : bytes := "continue;".
Definition continue_cst : cst :=
  L "continue_statement" None 0 9 [T "continue" 0 8; T ";" 8 9].
Example continue_example :
  shape_of continue_cst = "continue" /\ continue_spec continue_src continue_cst = SContinue "".
Proof. vm_compute. split; reflexivity. Qed.

Definition yield_src : bytes := "yield x + 1;".
Definition yield_cst : cst :=
  L "yield_statement" None 0 12 [T "yield" 0 5; L "binary_expression" None 6 11 []; T ";" 11 12].
Example yield_example :
  shape_of yield_cst = "yield" /\ yield_spec yield_src yield_cst = SYield "x + 1".
Proof. vm_compute. split; reflexivity. Qed.

Definition assert_src : bytes := "assert x > 0 : ""neg"";".
Definition assert_cst : cst :=
  L "assert_statement" None 0 21
    [T "assert" 0 6; L "binary_expression" None 7 12 []; T ":" 13 14;
     L "string_literal" None 15 20 []; T ";" 20 21].
Example assert_example :
  shape_of assert_cst = "assert"
  /\ assert_spec assert_src assert_cst = SAssert "x > 0" (Some """neg""").
Proof. vm_compute. split; reflexivity. Qed.
(* a detail message that is not a string literal is dropped *)
Definition assert2_cst : cst :=
  L "assert_statement" None 0 21
    [T "assert" 0 6; L "binary_expression" None 7 12 []; T ":" 13 14;
     L "identifier" None 15 20 []; T ";" 20 21].
Example assert_nonliteral_example :
  shape_of assert2_cst = "assert" /\ assert_spec assert_src assert2_cst = SAssert "x > 0" None.
Proof. vm_compute. split; reflexivity. Qed.

Definition return_src : bytes := "return x;".
Definition return_cst : cst :=
  L "return_statement" None 0 9 [T "return" 0 6; L "identifier" None 7 8 []; T ";" 8 9].
Example return_example :
  shape_of return_cst = "return" /\ return_spec return_src return_cst = SReturn (Some "x").
Proof. vm_compute. split; reflexivity. Qed.
Definition return2_cst : cst := L "return_statement" None 0 7 [T "return" 0 6; T ";" 6 7].
Example return_void_example :
  shape_of return2_cst = "return" /\ return_spec "return;" return2_cst = SReturn None.
Proof. vm_compute. split; reflexivity. Qed.

Definition block_src : bytes := "{ a(); b(); }".
Definition block_cst : cst :=
  L "block" None 0 13
    [T "{" 0 1; L "expression_statement" None 2 6 []; L "expression_statement" None 7 11 []; T "}" 12 13].
Example block_example :
  shape_of block_cst = "block" /\ side_ok block_src block_cst = true
  /\ block_stmts block_src block_cst = ["a();"; "b();"]
  /\ block_spec block_src block_cst = SBlock ["{"; "a();"; "b();"; "}"].
Proof. vm_compute. repeat split; reflexivity. Qed.

Definition call_src : bytes := "obj.run(1, ""s"")".
Definition call_cst : cst :=
  L "method_invocation" None 0 15
    [L "identifier" (Some "object") 0 3 []; T "." 3 4; L "identifier" (Some "name") 4 7 [];
     L "argument_list" (Some "arguments") 7 15
       [T "(" 7 8; L "decimal_integer_literal" None 8 9 []; T "," 9 10;
        L "string_literal" None 11 14 [L "string_fragment" None 12 13 []]; T ")" 14 15]].
Example call_example :
  shape_of call_cst = "call" /\ side_ok call_src call_cst = true
  /\ decode call_src None call_cst = Some [("name", ["obj.run"]); ("args", ["1"; "s"])].
Proof. vm_compute. repeat split; reflexivity. Qed.

Definition new_src : bytes := "new Foo(1, x)".
Definition new_cst : cst :=
  L "object_creation_expression" None 0 13
    [T "new" 0 3; L "type_identifier" (Some "type") 4 7 [];
     L "argument_list" (Some "arguments") 7 13
       [T "(" 7 8; L "decimal_integer_literal" None 8 9 []; T "," 9 10;
        L "identifier" None 11 12 []; T ")" 12 13]].
Example new_example :
  shape_of new_cst = "new"
  /\ new_spec new_src new_cst = ("Foo", [("decimal_integer_literal", "1"); ("identifier", "x")]).
Proof. vm_compute. split; reflexivity. Qed.

Definition method_src : bytes := "@Override public int f(int a, String b) throws E { }".
Definition method_cst : cst :=
  L "method_declaration" None 0 52
    [L "modifiers" None 0 16 [L "marker_annotation" None 0 9 []; T "public" 10 16];
     L "integral_type" (Some "type") 17 20 [];
     L "identifier" (Some "name") 21 22 [];
     L "formal_parameters" (Some "parameters") 22 39
       [T "(" 22 23;
        L "formal_parameter" None 23 28
          [L "integral_type" (Some "type") 23 26 []; L "identifier" (Some "name") 27 28 []];
        T "," 28 29;
        L "formal_parameter" None 30 38
          [L "type_identifier" (Some "type") 30 36 []; L "identifier" (Some "name") 37 38 []];
        T ")" 38 39];
     L "throws" None 40 48 [T "throws" 40 46; L "type_identifier" None 47 48 []];
     L "block" (Some "body") 49 52 [T "{" 49 50; T "}" 51 52]].
Example method_example :
  shape_of method_cst = "method"
  /\ decode method_src None method_cst
     = Some [("name", ["f"]); ("ret", ["int"]); ("vis", ["public"]);
             ("ptypes", ["int"; "String"]); ("pnames", ["a"; "b"]);
             ("throws", ["E"]); ("annots", ["@Override"]); ("doc", [])].
Proof. vm_compute. split; reflexivity. Qed.

Definition class_src : bytes := "/** C */ public class A extends B implements I, J { }".
Definition class_doc : cst := L "block_comment" None 0 8 [].
Definition class_cst : cst :=
  L "class_declaration" None 9 53
    [L "modifiers" None 9 15 [T "public" 9 15]; T "class" 16 21;
     L "identifier" (Some "name") 22 23 [];
     L "superclass" (Some "superclass") 24 33 [T "extends" 24 31; L "type_identifier" None 32 33 []];
     L "super_interfaces" (Some "interfaces") 34 49
       [T "implements" 34 44;
        L "type_list" None 45 49
          [L "type_identifier" None 45 46 []; T "," 46 47; L "type_identifier" None 48 49 []]];
     L "class_body" (Some "body") 50 53 [T "{" 50 51; T "}" 52 53]].
Example class_example :
  shape_of class_cst = "class"
  /\ decode class_src (Some class_doc) class_cst
     = Some [("name", ["A"]); ("vis", ["public"]); ("super", ["B"]); ("ifaces", ["I"; "J"]);
             ("annots", []); ("doc", ["/** C */"])].
Proof. vm_compute. split; reflexivity. Qed.

Definition var_src : bytes := "private int x = a + 1;".
Definition var_cst : cst :=
  L "field_declaration" None 0 22
    [L "modifiers" None 0 7 [T "private" 0 7];
     L "integral_type" (Some "type") 8 11 [];
     L "variable_declarator" (Some "declarator") 12 21
       [L "identifier" (Some "name") 12 13 []; T "=" 14 15;
        L "binary_expression" (Some "value") 16 21 []];
     T ";" 21 22].
Example var_example :
  shape_of var_cst = "var"
  /\ decode var_src None var_cst
     = Some [("name", ["x"]); ("dtype", ["int"]); ("value", ["a+1"]); ("scope", ["field"]);
             ("vis", ["private"])].
Proof. vm_compute. split; reflexivity. Qed.
(* a bare-identifier initializer (formerly mis-named by the builder, repaired) *)
Definition var2_src : bytes := "int x = y;".
Definition var2_cst : cst :=
  L "local_variable_declaration" None 0 10
    [L "integral_type" (Some "type") 0 3 [];
     L "variable_declarator" (Some "declarator") 4 9
       [L "identifier" (Some "name") 4 5 []; T "=" 6 7; L "identifier" (Some "value") 8 9 []];
     T ";" 9 10].
Example var_identifier_initializer_example :
  shape_of var2_cst = "var"
  /\ decode var2_src None var2_cst
     = Some [("name", ["x"]); ("dtype", ["int"]); ("value", ["y"]); ("scope", ["local"]); ("vis", [""])]
  /\ option_map (List.map n_name) (match entities_of var2_src "A.java" None var2_cst with Ok l => Some l | Panic _ => None end)
     = Some ["x"].
Proof. vm_compute. repeat split; reflexivity. Qed.

(* ---------- comments between the parts (D43, repaired) ---------- *)
Definition ents (r : result (list node)) : option (list node) :=
  match r with Ok l => Some l | Panic _ => None end.

(* the comment after the condition is reported under the condition's field name, as tree-sitter does *)
Definition ifc_src : bytes := "if (x) /*c*/ y(); else z();".
Definition ifc_cst : cst :=
  L "if_statement" None 0 27
    [T "if" 0 2; L "parenthesized_expression" (Some "condition") 3 6 [];
     L "block_comment" (Some "condition") 7 12 [];
     L "expression_statement" (Some "consequence") 13 17 []; T "else" 18 22;
     L "line_comment" None 22 22 [];
     L "expression_statement" (Some "alternative") 23 27 []].
Example if_comment_example :
  shape_of ifc_cst = "if"
  /\ decode ifc_src None ifc_cst = Some [("cond", ["(x)"]); ("then", ["y();"]); ("else", ["z();"])]
  /\ option_map (List.map n_stmt) (ents (entities_of ifc_src "A.java" None ifc_cst))
     = Some [Some (SIf (Some "(x)") "y();" "z();")].
Proof. vm_compute. repeat split; reflexivity. Qed.

Definition retc_src : bytes := "return /*r*/ x;".
Definition retc_cst : cst :=
  L "return_statement" None 0 15
    [T "return" 0 6; L "block_comment" None 7 12 []; L "identifier" None 13 14 []; T ";" 14 15].
Example return_comment_example :
  shape_of retc_cst = "return" /\ return_spec retc_src retc_cst = SReturn (Some "x")
  /\ option_map (List.map n_stmt) (ents (entities_of retc_src "A.java" None retc_cst))
     = Some [Some (SReturn (Some "x"))].
Proof. vm_compute. repeat split; reflexivity. Qed.

Definition assertc_src : bytes := "assert x > 0 //t
 : ""neg"";".
Definition assertc_cst : cst :=
  L "assert_statement" None 0 26
    [T "assert" 0 6; L "binary_expression" None 7 12 []; L "line_comment" None 13 16 [];
     T ":" 18 19; L "string_literal" None 20 25 []; T ";" 25 26].
Example assert_comment_example :
  shape_of assertc_cst = "assert"
  /\ assert_spec assertc_src assertc_cst = SAssert "x > 0" (Some """neg""")
  /\ option_map (List.map n_stmt) (ents (entities_of assertc_src "A.java" None assertc_cst))
     = Some [Some (SAssert "x > 0" (Some """neg"""))].
Proof. vm_compute. repeat split; reflexivity. Qed.

Definition blockc_src : bytes := "{ a(); /*c*/ b(); }".
Definition blockc_cst : cst :=
  L "block" None 0 19
    [T "{" 0 1; L "expression_statement" None 2 6 []; L "block_comment" None 7 12 [];
     L "expression_statement" None 13 17 []; T "}" 18 19].
Example block_comment_example :
  shape_of blockc_cst = "block" /\ side_ok blockc_src blockc_cst = true
  /\ block_stmts blockc_src blockc_cst = ["a();"; "b();"]
  /\ option_map (List.map n_stmt) (ents (entities_of blockc_src "A.java" None blockc_cst))
     = Some [Some (SBlock ["{"; "a();"; "b();"; "}"])].
Proof. vm_compute. repeat split; reflexivity. Qed.

Definition callc_src : bytes := "run(1, /*c*/ x)".
Definition callc_cst : cst :=
  L "method_invocation" None 0 15
    [L "identifier" (Some "name") 0 3 [];
     L "argument_list" (Some "arguments") 3 15
       [T "(" 3 4; L "decimal_integer_literal" None 4 5 []; T "," 5 6;
        L "block_comment" None 7 12 []; L "identifier" None 13 14 []; T ")" 14 15]].
Example call_comment_example :
  shape_of callc_cst = "call"
  /\ decode callc_src None callc_cst = Some [("name", ["run"]); ("args", ["1"; "x"])]
  /\ option_map (List.map n_argv) (ents (entities_of callc_src "A.java" None callc_cst)) = Some [["1"; "x"]].
Proof. vm_compute. repeat split; reflexivity. Qed.

Definition classc_src : bytes := "class A implements I, /*c*/ J { }".
Definition classc_cst : cst :=
  L "class_declaration" None 0 33
    [T "class" 0 5; L "identifier" (Some "name") 6 7 [];
     L "super_interfaces" (Some "interfaces") 8 29
       [T "implements" 8 18;
        L "type_list" None 19 29
          [L "type_identifier" None 19 20 []; T "," 20 21; L "block_comment" None 22 27 [];
           L "type_identifier" None 28 29 []]];
     L "class_body" (Some "body") 30 33 [T "{" 30 31; T "}" 32 33]].
Example class_comment_example :
  shape_of classc_cst = "class"
  /\ class_ifaces_spec classc_src classc_cst = ["I"; "J"]
  /\ option_map (List.map n_iface) (ents (entities_of classc_src "A.java" None classc_cst)) = Some [["I"; "J"]].
Proof. vm_compute. repeat split; reflexivity. Qed.

Definition varc_src : bytes := "int x = /**/ y /*z*/;".
Definition varc_cst : cst :=
  L "local_variable_declaration" None 0 21
    [L "integral_type" (Some "type") 0 3 [];
     L "variable_declarator" (Some "declarator") 4 20
       [L "identifier" (Some "name") 4 5 []; T "=" 6 7; L "block_comment" None 8 12 [];
        L "identifier" (Some "value") 13 14 []; L "block_comment" (Some "value") 15 20 []];
     T ";" 20 21].
Example var_comment_example :
  shape_of varc_cst = "var"
  /\ decode varc_src None varc_cst
     = Some [("name", ["x"]); ("dtype", ["int"]); ("value", ["y"]); ("scope", ["local"]); ("vis", [""])]
  /\ option_map (List.map n_value) (ents (entities_of varc_src "A.java" None varc_cst)) = Some ["y"].
Proof. vm_compute. repeat split; reflexivity. Qed.
End Examples.
