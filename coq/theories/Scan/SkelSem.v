(* SkelSem.v -- a small-step semantics for the statement language of Base/Skel.v (goroutines, buffered
   channels, close, range, select, wait group, deferred close), generic in the program, and the abstraction
   that maps a configuration of [pool_program] to a state of the hand-written transition system Scan/Pool.v.

   Nothing is proved in this file (so that the definitions stay executable when a proof breaks).  Scan/SkelSim.v
   proves, for EVERY list of files and every failure assignment, that the abstraction of Scan/SkelAbs.v is a
   simulation from this semantics of the extracted program onto Pool.step, that no configuration panics, that
   only finished configurations are stuck, and transfers PoolFacts' delivery / merge-order theorems to the
   configurations of the program (Properties/C07.v, the C07_program theorems).  The harness still explores, for small
   numbers of files and every set of unreadable files, ALL configurations reachable under the EXTRACTED
   (OCaml) semantics and re-checks the same facts plus coverage (every Pool transition is the image of some
   step): a cross-check of extraction and of the one direction the theorems do not state (lib/props/merge.py,
   `model skel`).

   Channel semantics (Go spec): a send proceeds iff the buffer has room (a channel of capacity 0 is never
   ready here: nobody ever receives from one while a sender waits in this program); a receive takes the oldest
   buffered item, or proceeds with ok = false when the channel is closed and drained; select offers every case
   that can proceed; close of a closed channel and send on a closed channel panic. *)
From CPF Require Import Base.Bytes Base.Skel.
From Coq Require Import List Arith Bool NArith.
Import ListNotations.
Open Scope bs_scope.

Definition slookup {V} (k : bytes) (m : list (bytes * V)) : option V :=
  match find (fun kv => bytes_eqb k (fst kv)) m with Some kv => Some (snd kv) | None => None end.

Fixpoint supdate {V} (k : bytes) (v : V) (m : list (bytes * V)) : list (bytes * V) :=
  match m with
  | [] => [(k, v)]
  | (k', v') :: r => if bytes_eqb k k' then (k, v) :: r else (k', v') :: supdate k v r
  end.

(* decimal literal *)
Definition digit_val (b : byte) : option nat :=
  let c := N.to_nat (code b) in if (48 <=? c) && (c <=? 57) then Some (c - 48) else None.
Fixpoint dec_val (acc : nat) (s : bytes) : option nat :=
  match s with
  | [] => Some acc
  | b :: r => match digit_val b with Some d => dec_val (10 * acc + d) r | None => None end
  end.

Inductive kitem :=
| KS (s : pstmt)
| KRange (ch : bytes) (body : list pstmt)      (* loop head of [for v := range ch] *)
| KEach (rest : list nat) (body : list pstmt)  (* loop head of [for _, v := range files] *)
| KTimes (k : nat) (body : list pstmt)
| KForever (body : list pstmt).

Record chan := Ch { c_cap : nat; c_buf : list nat; c_closed : bool }.

Record gor := G {
  g_name : bytes;
  g_k : list kitem;        (* continuation *)
  g_cur : nat;             (* the loop variable: the file being handled / last item received *)
  g_ok : bool;             (* ok of the last select receive *)
  g_defer : list bytes;    (* channels to close on return *)
  g_live : bool }.         (* has not returned *)

Record sk := SK {
  s_gors : list gor;
  s_chans : list (bytes * chan);
  s_sizes : list (bytes * nat);
  s_wg : nat;
  s_merged : list nat;     (* ghost: items received by the collecting loop of the first goroutine *)
  s_skipped : list nat;    (* ghost: items dropped by an error [continue] *)
  s_panic : bool }.

Section Sem.
  Variable prog : list (bytes * list pstmt).
  Variable files : list nat.
  Variable fails : bytes -> nat -> bool.     (* does the call fn fail on this item *)

  Definition body_of (g : bytes) : list pstmt := match slookup g prog with Some b => b | None => [] end.

  Definition size_of (s : sk) (x : bytes) : nat :=
    match slookup x (s_sizes s) with
    | Some v => v
    | None => match dec_val 0 x with Some v => v | None => 0 end
    end.

  Definition set_gor (s : sk) (i : nat) (g : gor) : list gor :=
    firstn i (s_gors s) ++ g :: skipn (S i) (s_gors s).

  Definition with_g (s : sk) (i : nat) (g : gor) : sk :=
    SK (set_gor s i g) (s_chans s) (s_sizes s) (s_wg s) (s_merged s) (s_skipped s) (s_panic s).

  Definition close_chan (cs : list (bytes * chan)) (ch : bytes) : list (bytes * chan) * bool :=
    match slookup ch cs with
    | Some c => if c_closed c then (cs, true) else (supdate ch (Ch (c_cap c) (c_buf c) true) cs, false)
    | None => (cs, true)
    end.

  Fixpoint close_all (cs : list (bytes * chan)) (l : list bytes) : list (bytes * chan) * bool :=
    match l with
    | [] => (cs, false)
    | ch :: r => let '(cs1, p1) := close_chan cs ch in let '(cs2, p2) := close_all cs1 r in (cs2, p1 || p2)
    end.

  (* the goroutine returns: its deferred closes run, it is finished *)
  Definition do_return (s : sk) (i : nat) (g : gor) : sk :=
    let '(cs, p) := close_all (s_chans s) (g_defer g) in
    SK (set_gor s i (G (g_name g) [] (g_cur g) (g_ok g) [] false)) cs (s_sizes s) (s_wg s) (s_merged s)
       (s_skipped s) (s_panic s || p).

  (* [continue]: drop the rest of the iteration, back to the innermost loop head *)
  Fixpoint to_loop_head (k : list kitem) : list kitem :=
    match k with
    | [] => []
    | KS _ :: r => to_loop_head r
    | _ => k
    end.

  Definition ks (l : list pstmt) : list kitem := map KS l.

  Definition gstep (s : sk) (i : nat) : list sk :=
    match nth_error (s_gors s) i with
    | None => []
    | Some g =>
      if negb (g_live g) then [] else
      let adv k := with_g s i (G (g_name g) k (g_cur g) (g_ok g) (g_defer g) true) in
      match g_k g with
      | [] => [do_return s i g]
      | KS st :: k =>
          match st with
          | SConst x v =>
              let s1 := adv k in
              [SK (s_gors s1) (s_chans s) (supdate x (match dec_val 0 v with Some n => n | None => 0 end) (s_sizes s))
                  (s_wg s) (s_merged s) (s_skipped s) (s_panic s)]
          | SLen x _ =>
              let s1 := adv k in
              [SK (s_gors s1) (s_chans s) (supdate x (length files) (s_sizes s)) (s_wg s) (s_merged s) (s_skipped s) (s_panic s)]
          | SMake ch cap =>
              let s1 := adv k in
              [SK (s_gors s1) (supdate ch (Ch (size_of s cap) [] false) (s_chans s)) (s_sizes s) (s_wg s)
                  (s_merged s) (s_skipped s) (s_panic s)]
          | SWaitGroup _ => [adv k]
          | SWgAdd n =>
              let s1 := adv k in
              [SK (s_gors s1) (s_chans s) (s_sizes s) (s_wg s + size_of s n) (s_merged s) (s_skipped s) (s_panic s)]
          | SWgDone =>
              let s1 := adv k in
              [SK (s_gors s1) (s_chans s) (s_sizes s) (s_wg s - 1) (s_merged s) (s_skipped s)
                  (s_panic s || (s_wg s =? 0))]
          | SWgWait => if s_wg s =? 0 then [adv k] else []
          | SSend ch =>
              match slookup ch (s_chans s) with
              | Some c =>
                  if c_closed c then
                    [SK (s_gors s) (s_chans s) (s_sizes s) (s_wg s) (s_merged s) (s_skipped s) true]
                  else if length (c_buf c) <? c_cap c then
                    let s1 := adv k in
                    [SK (s_gors s1) (supdate ch (Ch (c_cap c) (c_buf c ++ [g_cur g]) false) (s_chans s))
                        (s_sizes s) (s_wg s) (s_merged s) (s_skipped s) (s_panic s)]
                  else []
              | None => []
              end
          | SRecv ch =>
              match slookup ch (s_chans s) with
              | Some c =>
                  match c_buf c with
                  | x :: r =>
                      let s1 := with_g s i (G (g_name g) k x true (g_defer g) true) in
                      [SK (s_gors s1) (supdate ch (Ch (c_cap c) r (c_closed c)) (s_chans s)) (s_sizes s) (s_wg s)
                          (s_merged s) (s_skipped s) (s_panic s)]
                  | [] => if c_closed c then [adv k] else []
                  end
              | None => []
              end
          | SClose ch =>
              let s1 := adv k in
              let '(cs, p) := close_chan (s_chans s) ch in
              [SK (s_gors s1) cs (s_sizes s) (s_wg s) (s_merged s) (s_skipped s) (s_panic s || p)]
          | SDeferClose ch => [with_g s i (G (g_name g) k (g_cur g) (g_ok g) (ch :: g_defer g) true)]
          | SRange ch body => [adv (KRange ch body :: k)]
          | SForEach _ body => [adv (KEach files body :: k)]
          | SLoopN n body => [adv (KTimes (size_of s n) body :: k)]
          | SForever body => [adv (KForever body :: k)]
          | SSelect cases =>
              flat_map (fun '(ch, body) =>
                match slookup ch (s_chans s) with
                | Some c =>
                    match c_buf c with
                    | x :: r =>
                        let s1 := with_g s i (G (g_name g) (ks body ++ k) x true (g_defer g) true) in
                        [SK (s_gors s1) (supdate ch (Ch (c_cap c) r (c_closed c)) (s_chans s)) (s_sizes s) (s_wg s)
                            (s_merged s) (s_skipped s) (s_panic s)]
                    | [] =>
                        if c_closed c
                        then [with_g s i (G (g_name g) (ks body ++ k) (g_cur g) false (g_defer g) true)]
                        else []
                    end
                | None => []
                end) cases
          | SIfClosedReturn => if g_ok g then [adv k] else [do_return s i g]
          | SErrContinue fn =>
              if fails fn (g_cur g) then
                let s1 := adv (to_loop_head k) in
                [SK (s_gors s1) (s_chans s) (s_sizes s) (s_wg s) (s_merged s) (g_cur g :: s_skipped s) (s_panic s)]
              else [adv k]
          | SErrReturn _ => [adv k]
          | SGo gname =>
              let s1 := adv k in
              [SK (s_gors s1 ++ [G gname (ks (body_of gname)) 0 true [] true]) (s_chans s) (s_sizes s) (s_wg s)
                  (s_merged s) (s_skipped s) (s_panic s)]
          | SCall _ | SHook _ => [adv k]
          | SRet => [do_return s i g]
          end
      | KRange ch body :: k =>
          match slookup ch (s_chans s) with
          | Some c =>
              match c_buf c with
              | x :: r =>
                  let s1 := with_g s i (G (g_name g) (ks body ++ KRange ch body :: k) x true (g_defer g) true) in
                  [SK (s_gors s1) (supdate ch (Ch (c_cap c) r (c_closed c)) (s_chans s)) (s_sizes s) (s_wg s)
                      (if i =? 0 then s_merged s ++ [x] else s_merged s) (s_skipped s) (s_panic s)]
              | [] => if c_closed c then [adv k] else []
              end
          | None => []
          end
      | KEach [] _ :: k => [adv k]
      | KEach (x :: r) body :: k =>
          [with_g s i (G (g_name g) (ks body ++ KEach r body :: k) x (g_ok g) (g_defer g) true)]
      | KTimes O _ :: k => [adv k]
      | KTimes (S n) body :: k => [adv (ks body ++ KTimes n body :: k)]
      | KForever body :: k => [adv (ks body ++ KForever body :: k)]
      end
    end.

  Definition sk_steps (s : sk) : list sk := flat_map (gstep s) (seq 0 (length (s_gors s))).

  Definition sk_init : sk :=
    match prog with
    | (name, body) :: _ => SK [G name (ks body) 0 true [] true] [] [] 0 [] [] false
    | [] => SK [] [] [] 0 [] [] false
    end.

  Definition finished (s : sk) : bool := forallb (fun g => negb (g_live g)) (s_gors s).
End Sem.
