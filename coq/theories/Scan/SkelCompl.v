(* SkelCompl.v -- the converse of Scan/SkelSim.v: every transition of Pool.v out of the abstraction of a
   reachable configuration is matched by the program, PROVIDED the status updater is not "committed".

   The unrestricted statement is false: [abs] fuses the status updater's select on a closed and drained
   channel with the following [return]; between the two the updater is committed to return, but [abs]
   still shows GRunning, so Pool.step_g_status / step_g_progress may be enabled in the abstraction while
   nobody in the program will ever drain the other channel again ([skel_completeness_counterexample]).

   What holds, for every list of files and failure assignment:
   - [skel_complete]: from a reachable configuration in which the updater is not at that point
     ([uncommitted]), every Pool.step out of its abstraction is matched by finitely many steps of the
     program (silent steps of the goroutine concerned, then the visible one), ending in an uncommitted
     configuration;
   - [skel_covers_pool]: every Pool-reachable state is the abstraction of a reachable configuration, and
     every transition between Pool-reachable states is the image of a run of the program.  With
     SkelSim.skel_simulates_pool: the image of the program's reachable transition graph under [abs] is
     exactly Pool's reachable transition graph.

   Section [Next] first characterises the successors of a described configuration ([gstep_worker] etc.:
   gstep on [mk_sk] computed at the level of descriptions). *)
From CPF Require Import Base.Bytes Base.Skel Scan.SkelSem Scan.Pool Scan.PoolFacts Scan.PoolSkel Scan.SkelAbs
  Scan.SkelSim Scan.SkelTerm.
From Coq Require Import List Arith Bool Lia.
Import ListNotations.
Open Scope bs_scope.

Local Arguments set_gor : simpl never.
Local Arguments Nat.ltb : simpl never.
Local Arguments Nat.eqb : simpl never.

(* the status updater has executed its select with ok = false and not yet returned *)
Definition committed_g (g : gor) : bool :=
  g_live g && negb (g_ok g) && match g_k g with KS SIfClosedReturn :: _ => true | _ => false end.
Definition uncommitted (s : sk) : bool :=
  match find_gor "g1" (s_gors s) with Some g => negb (committed_g g) | None => true end.

Section ComplW.
  Variable v : bytes.
  Variable w : nat.
  Hypothesis Hv : dec_val 0 v = Some w.
  Variable files : list nat.
  Variable fails : bytes -> nat -> bool.

  Notation n := (length files).
  Notation PROG := (pool_prog_lit v).
  Notation mk_sk := (SkelSim.mk_sk w files).
  Notation mk_chans := (SkelSim.mk_chans w files).
  Notation wgof := (SkelSim.wgof w).
  Notation wf := (SkelSim.wf w fails).
  Notation absd := (SkelSim.absd w files).
  Notation readable := (SkelSim.readable fails).
  Notation pstep := (Pool.step n w readable).
  Notation sstep := (SkelSim.sstep_w v files fails).
  Notation sreach := (SkelSim.sreach_w v files fails).

  Ltac gsimp H :=
    cbn in H; unfold with_g, do_return in H; cbn in H.

  (* ---------------------------------------------------------------------- *)
  (* Successors of a described configuration                                 *)
  (* ---------------------------------------------------------------------- *)

  Definition wnext (M : mst) (x : wst) (D : data) : list (wst * data) :=
    let '(p, c, o) := x in
    let '(Dt q0 q1 q2 q3 mg skp) := D in
    match p with
    | W_start => [((W_range, c, o), Dt q0 q1 q2 q3 mg skp)]
    | W_range =>
        match q0 with
        | f :: r => [((W_hook, f, true), Dt r q1 q2 q3 mg skp)]
        | [] => if past_close_m (fst (fst M)) then [((W_done, c, o), Dt [] q1 q2 q3 mg skp)] else []
        end
    | W_hook => [((W_s1, c, o), Dt q0 q1 q2 q3 mg skp)]
    | W_s1 => if length q2 <? w then [((W_rd, c, o), Dt q0 q1 (q2 ++ [c]) q3 mg skp)] else []
    | W_rd => if fails "readFile" c then [((W_range, c, o), Dt q0 q1 q2 q3 mg (c :: skp))]
              else [((W_ps, c, o), Dt q0 q1 q2 q3 mg skp)]
    | W_ps => if fails "parser.ParseCtx" c then [((W_range, c, o), Dt q0 q1 q2 q3 mg (c :: skp))]
              else [((W_s2, c, o), Dt q0 q1 q2 q3 mg skp)]
    | W_s2 => if length q2 <? w then [((W_bd, c, o), Dt q0 q1 (q2 ++ [c]) q3 mg skp)] else []
    | W_bd => [((W_s3, c, o), Dt q0 q1 q2 q3 mg skp)]
    | W_s3 => if length q2 <? w then [((W_sr, c, o), Dt q0 q1 (q2 ++ [c]) q3 mg skp)] else []
    | W_sr => if length q1 <? n then [((W_sp, c, o), Dt q0 (q1 ++ [c]) q2 q3 mg skp)] else []
    | W_sp => if length q3 <? n then [((W_range, c, o), Dt q0 q1 q2 (q3 ++ [c]) mg skp)] else []
    | W_done => [((W_end, c, o), Dt q0 q1 q2 q3 mg skp)]
    | W_end => [((W_dead, c, o), Dt q0 q1 q2 q3 mg skp)]
    | W_dead => []
    end.

  Lemma gstep_worker : forall M (l1 : list wst) (x : wst) (l2 : list wst) g1 g2 D,
    (wpend (fst (fst x)) = 1 -> cpast g2 = false) ->
    gstep PROG files fails (mk_sk M (l1 ++ x :: l2) g1 g2 D) (length (mgor M :: map wgor l1)) =
    map (fun xd => mk_sk M (l1 ++ fst xd :: l2) g1 g2 (snd xd)) (wnext M x D).
  Proof.
    intros M l1 x l2 g1 g2 D Hnc.
    assert (Hnp : wpend (fst (fst x)) = 1 -> fl1 g2 = false /\ fl2 g2 = false /\ fl3 g2 = false).
    { intros Hp. apply not_past_flags. auto. }
    assert (Hwg : wpend (fst (fst x)) = 1 -> (wgof (l1 ++ x :: l2) =? 0) = false).
    { intros Hp. apply Nat.eqb_neq. rewrite wgof_mid. lia. }
    remember (gstep PROG files fails (mk_sk M (l1 ++ x :: l2) g1 g2 D) (length (mgor M :: map wgor l1)))
      as L eqn:H.
    rewrite mk_sk_worker in H. unfold SkelSim.raw, gstep in H. cbn [s_gors] in H.
    rewrite nth_error_mid in H.
    remember (mgor M :: map wgor l1) as pre eqn:Epre.
    remember (map wgor l2 ++ tailg g1 g2) as post eqn:Epost.
    remember (wgof (l1 ++ x :: l2)) as wg eqn:Ewg.
    destruct x as [[p c] o]. destruct D as [q0 q1 q2 q3 mg skp].
    Ltac weq0 :=
      rewrite mk_sk_worker; unfold SkelSim.raw, SkelSim.mk_chans; subst; rewrite ?set_gor_mid, !wgof_mid.
    Ltac weq := weq0; reflexivity.
    Ltac wone := cbn [map fst snd]; f_equal; weq.
    destruct p; cbn [wpend fst] in Hnp, Hwg; gsimp H; cbn [wnext].
    - subst L. wone.
    - destruct q0 as [|f r].
      + destruct (past_close_m (fst (fst M))) eqn:Hpc; subst L; [|reflexivity].
        cbn [map fst snd]. f_equal. weq0. rewrite Hpc. reflexivity.
      + subst L. wone.
    - subst L. wone.
    - destruct (Hnp eq_refl) as (F1 & F2 & F3). rewrite F2 in H. cbv iota in H.
      destruct (length q2 <? w); subst L; [|reflexivity].
      cbn [map fst snd]. f_equal. weq0. rewrite F2. reflexivity.
    - destruct (fails "readFile" c); subst L; wone.
    - destruct (fails "parser.ParseCtx" c); subst L; wone.
    - destruct (Hnp eq_refl) as (F1 & F2 & F3). rewrite F2 in H. cbv iota in H.
      destruct (length q2 <? w); subst L; [|reflexivity].
      cbn [map fst snd]. f_equal. weq0. rewrite F2. reflexivity.
    - subst L. wone.
    - destruct (Hnp eq_refl) as (F1 & F2 & F3). rewrite F2 in H. cbv iota in H.
      destruct (length q2 <? w); subst L; [|reflexivity].
      cbn [map fst snd]. f_equal. weq0. rewrite F2. reflexivity.
    - destruct (Hnp eq_refl) as (F1 & F2 & F3). rewrite F1 in H. cbv iota in H.
      destruct (length q1 <? n); subst L; [|reflexivity].
      cbn [map fst snd]. f_equal. weq0. rewrite F1. reflexivity.
    - destruct (Hnp eq_refl) as (F1 & F2 & F3). rewrite F3 in H. cbv iota in H.
      destruct (length q3 <? n); subst L; [|reflexivity].
      cbn [map fst snd]. f_equal. weq0. rewrite F3. reflexivity.
    - rewrite (Hwg eq_refl) in H. subst L. cbn [map fst snd]. f_equal.
      weq0. cbn [wpend fst]. f_equal. lia.
    - subst L. wone.
    - subst L. reflexivity.
  Qed.

  Definition cnext (p : cpc) (ws : list wst) : list cpc :=
    match p with
    | C_wait => if wgof ws =? 0 then [C_c1] else []
    | C_c1 => [C_c2]
    | C_c2 => [C_c3]
    | C_c3 => [C_end]
    | C_end => [C_dead]
    | C_dead => []
    end.

  Lemma gstep_closer : forall M (ws : list wst) g1 p D,
    gstep PROG files fails (mk_sk M ws g1 (Some p) D)
      (length (mgor M :: map wgor ws ++ olist (option_map sgor g1))) =
    map (fun p' => mk_sk M ws g1 (Some p') D) (cnext p ws).
  Proof.
    intros M ws g1 p D.
    remember (gstep PROG files fails (mk_sk M ws g1 (Some p) D)
                (length (mgor M :: map wgor ws ++ olist (option_map sgor g1)))) as L eqn:H.
    rewrite mk_sk_closer in H. unfold SkelSim.raw, gstep in H. cbn [s_gors] in H.
    rewrite nth_error_mid in H.
    remember (mgor M :: map wgor ws ++ olist (option_map sgor g1)) as pre eqn:Epre.
    destruct D as [q0 q1 q2 q3 mg skp].
    Ltac ceq := rewrite mk_sk_closer; unfold SkelSim.raw, SkelSim.mk_chans; subst; rewrite ?set_gor_mid; reflexivity.
    destruct p; gsimp H; cbn [cnext].
    - destruct (wgof ws =? 0); subst L; [|reflexivity]. cbn [map]. f_equal. ceq.
    - subst L. cbn [map]. f_equal. ceq.
    - subst L. cbn [map]. f_equal. ceq.
    - subst L. cbn [map]. f_equal. ceq.
    - subst L. cbn [map]. f_equal. ceq.
    - subst L. reflexivity.
  Qed.

  Definition snext (x : sst) (g2 : option cpc) (D : data) : list (sst * data) :=
    let '(p, c, o) := x in
    let '(Dt q0 q1 q2 q3 mg skp) := D in
    match p with
    | S_defer => [((S_forever, c, o), Dt q0 q1 q2 q3 mg skp)]
    | S_forever => [((S_kforever, c, o), Dt q0 q1 q2 q3 mg skp)]
    | S_kforever => [((S_select, c, o), Dt q0 q1 q2 q3 mg skp)]
    | S_select =>
        match q2 with
        | y :: r => [((S_if, y, true), Dt q0 q1 r q3 mg skp)]
        | [] => if fl2 g2 then [((S_if, c, false), Dt q0 q1 [] q3 mg skp)] else []
        end ++
        match q3 with
        | y :: r => [((S_if, y, true), Dt q0 q1 q2 r mg skp)]
        | [] => if fl3 g2 then [((S_if, c, false), Dt q0 q1 q2 [] mg skp)] else []
        end
    | S_if => if o then [((S_kforever, c, true), Dt q0 q1 q2 q3 mg skp)]
              else [((S_dead, c, false), Dt q0 q1 q2 q3 mg skp)]
    | S_dead => []
    end.

  Lemma gstep_status : forall M (ws : list wst) (x : sst) g2 D,
    has_c4 (fst (fst M)) = true ->
    gstep PROG files fails (mk_sk M ws (Some x) g2 D) (length (mgor M :: map wgor ws)) =
    map (fun xd => mk_sk M ws (Some (fst xd)) g2 (snd xd)) (snext x g2 D).
  Proof.
    intros M ws x g2 D H4.
    remember (gstep PROG files fails (mk_sk M ws (Some x) g2 D) (length (mgor M :: map wgor ws)))
      as L eqn:H.
    rewrite mk_sk_status in H. unfold SkelSim.raw, gstep in H. cbn [s_gors] in H.
    rewrite nth_error_mid in H.
    remember (mgor M :: map wgor ws) as pre eqn:Epre.
    remember (olist (option_map cgor g2)) as post eqn:Epost.
    destruct D as [q0 q1 q2 q3 mg skp].
    destruct x as [[p c] o].
    Ltac seq0 := rewrite mk_sk_status; unfold SkelSim.raw, SkelSim.mk_chans; subst; rewrite ?set_gor_mid.
    Ltac seq := seq0; reflexivity.
    Ltac sone := cbn [map fst snd]; f_equal; seq.
    destruct p; gsimp H; cbn [snext].
    - subst L. sone.
    - subst L. sone.
    - subst L. sone.
    - rewrite app_nil_r in H. rewrite map_app. subst L. f_equal.
      + destruct q2 as [|y r].
        * destruct (fl2 g2) eqn:F2; [|reflexivity]. cbn [map fst snd]. f_equal. seq0. rewrite F2. reflexivity.
        * sone.
      + destruct q3 as [|y r].
        * destruct (fl3 g2) eqn:F3; [|reflexivity]. cbn [map fst snd]. f_equal. seq0. rewrite F3. reflexivity.
        * sone.
    - destruct o.
      + subst L. sone.
      + rewrite H4 in H. cbn in H. subst L. cbn [map fst snd]. f_equal. seq0. rewrite H4. reflexivity.
    - subst L. reflexivity.
  Qed.

  Definition desc : Type := (mst * list wst * option sst * option cpc * data)%type.
  Definition conc (d : desc) : sk := let '(M, ws, g1, g2, D) := d in mk_sk M ws g1 g2 D.

  Definition mnext (M : mst) (ws : list wst) (g1 : option sst) (g2 : option cpc) (D : data) : list desc :=
    let '(p, c, o) := M in
    let '(Dt q0 q1 q2 q3 mg skp) := D in
    let D := Dt q0 q1 q2 q3 mg skp in
    match p with
    | M_loop => [((M_times w, c, o), ws, g1, g2, D)]
    | M_times 0 => [((M_foreach, c, o), ws, g1, g2, D)]
    | M_times (S k) => [((M_go k, c, o), ws, g1, g2, D)]
    | M_go k => [((M_times k, c, o), ws ++ [(W_start, 0, true)], None, None, D)]
    | M_foreach => [((M_each files, c, o), ws, g1, g2, D)]
    | M_each [] => [((M_close, c, o), ws, g1, g2, D)]
    | M_each (f :: r) => [((M_send r, f, o), ws, g1, g2, D)]
    | M_send r => if length q0 <? n then [((M_each r, c, o), ws, g1, g2, Dt (q0 ++ [c]) q1 q2 q3 mg skp)] else []
    | M_close => [((M_make4, c, o), ws, g1, g2, D)]
    | M_make4 => [((M_go1, c, o), ws, None, g2, D)]
    | M_go1 => [((M_go2, c, o), ws, Some (S_defer, 0, true), None, D)]
    | M_go2 => [((M_range, c, o), ws, g1, Some C_wait, D)]
    | M_range => [((M_krange, c, o), ws, g1, g2, D)]
    | M_krange =>
        match q1 with
        | f :: r => [((M_hook, f, true), ws, g1, g2, Dt q0 r q2 q3 (mg ++ [f]) skp)]
        | [] => if fl1 g2 then [((M_join, c, o), ws, g1, g2, Dt q0 [] q2 q3 mg skp)] else []
        end
    | M_hook => [((M_krange, c, o), ws, g1, g2, D)]
    | M_join => if sdead g1 then [((M_ret, c, o), ws, g1, g2, D)] else []
    | M_ret => [((M_dead, c, o), ws, g1, g2, D)]
    | M_dead => []
    end.

  Definition is_some {A} (o : option A) : bool := match o with Some _ => true | None => false end.

  Lemma gstep_main : forall (M : mst) (ws : list wst) g1 g2 D,
    nworkers w (fst (fst M)) (length ws) ->
    is_some g1 = has_g1 (fst (fst M)) -> is_some g2 = has_g2 (fst (fst M)) ->
    gstep PROG files fails (mk_sk M ws g1 g2 D) 0 = map conc (mnext M ws g1 g2 D).
  Proof.
    intros M ws g1 g2 D W1 W2 W3.
    remember (gstep PROG files fails (mk_sk M ws g1 g2 D) 0) as L eqn:H.
    unfold SkelSim.mk_sk, gstep in H. cbn [s_gors nth_error] in H.
    remember (wgof ws) as wg eqn:Ewg.
    destruct D as [q0 q1 q2 q3 mg skp].
    destruct M as [[p c] o].
    cbn [fst] in W1, W2, W3.
    Ltac meq0 := unfold SkelSim.mk_sk, SkelSim.mk_chans; subst; rewrite ?set_gor_0.
    Ltac meq := meq0; reflexivity.
    Ltac mone := cbn [map conc]; f_equal; meq.
    Ltac mpost ws g1 g2 :=
      let post := fresh "post" in let Epost := fresh "Epost" in
      remember (map wgor ws ++ olist (option_map sgor g1) ++ olist (option_map cgor g2)) as post eqn:Epost.
    destruct p; cbn [mnext].
    - mpost ws g1 g2. gsimp H. subst L. mone.
    - mpost ws g1 g2. destruct k as [|k]; gsimp H; subst L; mone.
    - destruct g1; [discriminate W2|]. destruct g2; [discriminate W3|].
      gsimp H. subst L. cbn [map conc]. f_equal. cbn in W1.
      meq0. cbn [option_map olist app]. rewrite !app_nil_r, map_app. cbn [map wgor wk_of wlive].
      f_equal. unfold SkelSim.wgof, pendings. rewrite map_app, list_sum_app, app_length.
      change (length [(W_start, 0, true)]) with 1.
      change (list_sum (map (fun x : wst => wpend (fst (fst x))) [(W_start, 0, true)])) with 1. lia.
    - mpost ws g1 g2. gsimp H. subst L. mone.
    - mpost ws g1 g2. destruct rest as [|f rest]; gsimp H; subst L; mone.
    - mpost ws g1 g2. gsimp H. destruct (length q0 <? n); subst L; [mone | reflexivity].
    - mpost ws g1 g2. gsimp H. subst L. mone.
    - destruct g1; [discriminate W2|]. mpost ws (@None sst) g2. gsimp H. subst L. mone.
    - destruct g1; [discriminate W2|]. destruct g2; [discriminate W3|].
      gsimp H. subst L. cbn [map conc]. f_equal.
      meq0. cbn [option_map olist app]. rewrite <- !app_assoc. reflexivity.
    - destruct g2; [discriminate W3|].
      gsimp H. subst L. cbn [map conc]. f_equal.
      meq0. cbn [option_map olist app]. rewrite <- !app_assoc. reflexivity.
    - mpost ws g1 g2. gsimp H. subst L. mone.
    - mpost ws g1 g2. gsimp H. destruct q1 as [|f r].
      + destruct (fl1 g2) eqn:F1; subst L; [|reflexivity].
        cbn [map conc]. f_equal. meq0. rewrite F1. reflexivity.
      + subst L. mone.
    - mpost ws g1 g2. gsimp H. subst L. mone.
    - mpost ws g1 g2. gsimp H. destruct (sdead g1) eqn:Hd; subst L; [|reflexivity].
      cbn [map conc]. f_equal. meq0. rewrite Hd. reflexivity.
    - mpost ws g1 g2. gsimp H. subst L. mone.
    - subst L. reflexivity.
  Qed.

  (* ---------------------------------------------------------------------- *)
  (* Runs                                                                    *)
  (* ---------------------------------------------------------------------- *)

  Inductive sstar : sk -> sk -> Prop :=
  | sstar_refl : forall s, sstar s s
  | sstar_cons : forall s1 s2 s3, sstep s1 s2 -> sstar s2 s3 -> sstar s1 s3.

  Lemma sstar_trans : forall s1 s2 s3, sstar s1 s2 -> sstar s2 s3 -> sstar s1 s3.
  Proof.
    intros s1 s2 s3 H. induction H as [s | a b c Hs H IH]; intros H2; [exact H2|].
    eapply sstar_cons; [exact Hs | apply IH; exact H2].
  Qed.

  Lemma sstar_reach : forall s s', sstar s s' -> sreach s -> sreach s'.
  Proof.
    intros s s' H. induction H as [s | a b c Hs H IH]; intros Hr; [exact Hr|].
    apply IH. eapply SkelSim.sreach_step_w; eassumption.
  Qed.

  Lemma wstep_in : forall M (a : list wst) (x : wst) (b : list wst) g1 g2 D x1 D1 s',
    cpast g2 = false -> In (x1, D1) (wnext M x D) ->
    sstar (mk_sk M (a ++ x1 :: b) g1 g2 D1) s' ->
    sstar (mk_sk M (a ++ x :: b) g1 g2 D) s'.
  Proof.
    intros M a x b g1 g2 D x1 D1 s' Hc Hin Hs. eapply sstar_cons; [|exact Hs].
    unfold SkelSim.sstep_w.
    eapply (sk_steps_intro _ _ _ _ _ (mgor M :: map wgor a) (wgor x) (map wgor b ++ tailg g1 g2)).
    - rewrite mk_sk_worker. reflexivity.
    - rewrite gstep_worker by (intros _; exact Hc). apply in_map_iff.
      exists (x1, D1). split; [reflexivity | exact Hin].
  Qed.

  Lemma sstep_in : forall M (ws : list wst) (x : sst) g2 D x1 D1 s',
    has_c4 (fst (fst M)) = true -> In (x1, D1) (snext x g2 D) ->
    sstar (mk_sk M ws (Some x1) g2 D1) s' ->
    sstar (mk_sk M ws (Some x) g2 D) s'.
  Proof.
    intros M ws x g2 D x1 D1 s' H4 Hin Hs. eapply sstar_cons; [|exact Hs].
    unfold SkelSim.sstep_w.
    eapply (sk_steps_intro _ _ _ _ _ (mgor M :: map wgor ws) (sgor x) (olist (option_map cgor g2))).
    - rewrite mk_sk_status. reflexivity.
    - rewrite gstep_status by exact H4. apply in_map_iff.
      exists (x1, D1). split; [reflexivity | exact Hin].
  Qed.

  Lemma cstep_in : forall M (ws : list wst) g1 p D p1 s',
    In p1 (cnext p ws) ->
    sstar (mk_sk M ws g1 (Some p1) D) s' ->
    sstar (mk_sk M ws g1 (Some p) D) s'.
  Proof.
    intros M ws g1 p D p1 s' Hin Hs. eapply sstar_cons; [|exact Hs].
    unfold SkelSim.sstep_w.
    eapply (sk_steps_intro _ _ _ _ _ (mgor M :: map wgor ws ++ olist (option_map sgor g1)) (cgor p) []).
    - rewrite mk_sk_closer. reflexivity.
    - rewrite gstep_closer. apply in_map_iff. exists p1. split; [reflexivity | exact Hin].
  Qed.

  Lemma mstep_in : forall (M : mst) (ws : list wst) g1 g2 D d s',
    nworkers w (fst (fst M)) (length ws) ->
    is_some g1 = has_g1 (fst (fst M)) -> is_some g2 = has_g2 (fst (fst M)) ->
    In d (mnext M ws g1 g2 D) ->
    sstar (conc d) s' ->
    sstar (mk_sk M ws g1 g2 D) s'.
  Proof.
    intros M ws g1 g2 D d s' W1 W2 W3 Hin Hs. eapply sstar_cons; [|exact Hs].
    unfold SkelSim.sstep_w.
    eapply (sk_steps_intro _ _ _ _ _ [] (mgor M)
              (map wgor ws ++ olist (option_map sgor g1) ++ olist (option_map cgor g2))).
    - reflexivity.
    - change (length (@nil gor)) with 0. rewrite gstep_main by assumption.
      apply in_map. exact Hin.
  Qed.

  Lemma uncommitted_mk : forall M ws g1 g2 D,
    uncommitted (mk_sk M ws g1 g2 D) = negb (sif_false g1).
  Proof.
    intros M ws g1 g2 D. unfold uncommitted, SkelSim.mk_sk. cbn [s_gors].
    fold (tailg g1 g2).
    replace (find_gor "g1" (mgor M :: map wgor ws ++ tailg g1 g2)) with (find_gor "g1" (tailg g1 g2)).
    - destruct g1 as [[[p c] o]|]; destruct g2 as [q|]; try destruct p; try destruct o; reflexivity.
    - destruct M as [[p c] o]. unfold find_gor at 2. cbn [find mgor g_name].
      change (bytes_eqb "Initialize" "g1") with false. cbv iota.
      symmetry. apply (find_other_workers "g1"). reflexivity.
  Qed.

  (* ---------------------------------------------------------------------- *)
  (* Spawning the remaining workers is silent                                *)
  (* ---------------------------------------------------------------------- *)

  Definition spawned (p : mpc) : bool :=
    match p with M_loop | M_times _ | M_go _ => false | _ => true end.

  Definition W0 : wst := (W_start, 0, true).

  Lemma spawn_rest : forall k (ws : list wst) c o D, length ws + k = w ->
    sstar (mk_sk (M_times k, c, o) ws None None D)
          (mk_sk (M_foreach, c, o) (ws ++ repeat W0 k) None None D).
  Proof.
    induction k as [|k IH]; intros ws c o D Hl; destruct D as [q0 q1 q2 q3 mg skp].
    - eapply (mstep_in _ _ _ _ _ ((M_foreach, c, o), ws, None, None, Dt q0 q1 q2 q3 mg skp));
        try reflexivity; [exact Hl | left; reflexivity |].
      cbn [conc repeat]. rewrite app_nil_r. apply sstar_refl.
    - eapply (mstep_in _ _ _ _ _ ((M_go k, c, o), ws, None, None, Dt q0 q1 q2 q3 mg skp));
        try reflexivity; [exact Hl | left; reflexivity |].
      cbn [conc].
      eapply (mstep_in _ _ _ _ _ ((M_times k, c, o), ws ++ [W0], None, None, Dt q0 q1 q2 q3 mg skp));
        try reflexivity; [cbn; lia | left; reflexivity |].
      cbn [conc].
      replace (ws ++ repeat W0 (S k)) with ((ws ++ [W0]) ++ repeat W0 k)
        by (rewrite <- app_assoc; reflexivity).
      apply IH. rewrite app_length. cbn. lia.
  Qed.

  Lemma absd_spawn : forall (M M' : mst) (ws : list wst) k g1 g2 D,
    length ws + k = w -> mabs files M' = mabs files M ->
    past_close_m (fst (fst M')) = past_close_m (fst (fst M)) ->
    absd M' (ws ++ repeat W0 k) g1 g2 D = absd M ws g1 g2 D.
  Proof.
    intros M M' ws k g1 g2 D Hl Hm Hp. unfold SkelSim.absd. rewrite Hm, Hp. f_equal.
    rewrite map_app, app_length, repeat_length, <- app_assoc. f_equal.
    replace (w - (length ws + k)) with 0 by lia. replace (w - length ws) with k by lia.
    cbn [repeat]. rewrite app_nil_r. clear Hl. induction k as [|k IH]; [reflexivity|].
    cbn [repeat map]. rewrite IH. reflexivity.
  Qed.

  Lemma main_norm : forall M ws g1 g2 D, wf M ws g1 g2 D ->
    exists M' ws',
      sstar (mk_sk M ws g1 g2 D) (mk_sk M' ws' g1 g2 D) /\
      absd M' ws' g1 g2 D = absd M ws g1 g2 D /\
      wf M' ws' g1 g2 D /\ length ws' = w /\ spawned (fst (fst M')) = true.
  Proof.
    intros M ws g1 g2 D W. pose proof W as W'. destruct W' as [W1 W2 W3 W4 W5 W6].
    destruct M as [[p c] o]. cbn [fst] in *.
    assert (Hsp : forall k, length ws + k = w -> g1 = None -> g2 = None ->
              wf (M_foreach, c, o) (ws ++ repeat W0 k) g1 g2 D).
    { intros k Hl E1 E2. subst g1 g2. constructor; try reflexivity; try discriminate.
      - cbn. rewrite app_length, repeat_length. exact Hl.
      - apply Forall_app. split; [exact W6|]. clear. induction k; constructor; [exact I | assumption]. }
    destruct p;
      try (exists (p, c, o), ws; repeat split; try assumption; try reflexivity; apply sstar_refl);
      try (match goal with |- exists M' ws', sstar (mk_sk (?q, _, _) _ _ _ _) _ /\ _ =>
             exists (q, c, o), ws; repeat split; try assumption; try reflexivity; apply sstar_refl end).
    - (* M_loop *)
      destruct g1; [discriminate W2|]. destruct g2; [discriminate W3|].
      cbn in W1. destruct D as [q0 q1 q2 q3 mg skp].
      exists (M_foreach, c, o), (ws ++ repeat W0 w). split; [|split; [|split; [|split]]].
      + eapply (mstep_in _ _ _ _ _ ((M_times w, c, o), ws, None, None, Dt q0 q1 q2 q3 mg skp));
          try reflexivity; [exact W1 | left; reflexivity |].
        cbn [conc]. apply spawn_rest. lia.
      + apply absd_spawn; [lia | reflexivity | reflexivity].
      + apply Hsp; [lia | reflexivity | reflexivity].
      + rewrite app_length, repeat_length. lia.
      + reflexivity.
    - (* M_times *)
      destruct g1; [discriminate W2|]. destruct g2; [discriminate W3|]. cbn in W1.
      exists (M_foreach, c, o), (ws ++ repeat W0 k). split; [|split; [|split; [|split]]].
      + apply spawn_rest. exact W1.
      + apply absd_spawn; [exact W1 | reflexivity | reflexivity].
      + apply Hsp; [exact W1 | reflexivity | reflexivity].
      + rewrite app_length, repeat_length. exact W1.
      + reflexivity.
    - (* M_go *)
      destruct g1; [discriminate W2|]. destruct g2; [discriminate W3|]. cbn in W1.
      destruct D as [q0 q1 q2 q3 mg skp].
      exists (M_foreach, c, o), (ws ++ repeat W0 (S k)). split; [|split; [|split; [|split]]].
      + eapply (mstep_in _ _ _ _ _ ((M_times k, c, o), ws ++ [W0], None, None, Dt q0 q1 q2 q3 mg skp));
          try reflexivity; [exact W1 | left; reflexivity |].
        cbn [conc].
        replace (ws ++ repeat W0 (S k)) with ((ws ++ [W0]) ++ repeat W0 k)
          by (rewrite <- app_assoc; reflexivity).
        apply spawn_rest. rewrite app_length. cbn. lia.
      + apply absd_spawn; [lia | reflexivity | reflexivity].
      + apply Hsp; [lia | reflexivity | reflexivity].
      + rewrite app_length, repeat_length. lia.
      + reflexivity.
  Qed.

  (* ---------------------------------------------------------------------- *)
  (* Matching a Pool.step                                                    *)
  (* ---------------------------------------------------------------------- *)

  Lemma absd_full : forall (M : mst) (ws : list wst) g1 g2 D, length ws = w ->
    absd M ws g1 g2 D =
    St (mabs files M) (d_q0 D) (past_close_m (fst (fst M))) (map wabs ws)
       (length (d_q2 D)) (length (d_q3 D)) (d_q1 D) (sabs g1) (cabs g2) (d_mg D) (d_skp D).
  Proof.
    intros. unfold SkelSim.absd. rewrite H, Nat.sub_diag. cbn [repeat]. rewrite app_nil_r. reflexivity.
  Qed.

  Lemma map_wabs_split : forall (ws : list wst) l1 X l2, map wabs ws = l1 ++ X :: l2 ->
    exists a x b, ws = a ++ x :: b /\ map wabs a = l1 /\ wabs x = X /\ map wabs b = l2.
  Proof.
    intros ws l1 X l2 H. apply map_eq_app in H. destruct H as [a [b' [E [Ea Eb]]]].
    apply map_eq_cons in Eb. destruct Eb as [x [b [Eb [Ex Eb2]]]].
    exists a, x, b. subst. auto.
  Qed.

  Lemma absd_worker_full : forall (M : mst) (a : list wst) (x x' : wst) (b : list wst) g1 g2 D',
    length (a ++ x :: b) = w ->
    absd M (a ++ x' :: b) g1 g2 D' =
    St (mabs files M) (d_q0 D') (past_close_m (fst (fst M))) (map wabs a ++ wabs x' :: map wabs b)
       (length (d_q2 D')) (length (d_q3 D')) (d_q1 D') (sabs g1) (cabs g2) (d_mg D') (d_skp D').
  Proof.
    intros M a x x' b g1 g2 D' Hl. rewrite absd_full.
    - rewrite map_app. reflexivity.
    - rewrite app_length in *. exact Hl.
  Qed.

  Lemma readable_true : forall f, readable f = true ->
    fails "readFile" f = false /\ fails "parser.ParseCtx" f = false.
  Proof.
    intros f H. unfold SkelSim.readable in H. apply andb_true_iff in H. destruct H as [H1 H2].
    apply negb_true_iff in H1. apply negb_true_iff in H2. auto.
  Qed.

  (* the status updater reaches its select silently *)
  Lemma status_norm : forall M (ws : list wst) (x : sst) g2 D,
    has_c4 (fst (fst M)) = true -> sif_false (Some x) = false -> sabs (Some x) = GRunning ->
    exists c' o', sstar (mk_sk M ws (Some x) g2 D) (mk_sk M ws (Some (S_select, c', o')) g2 D).
  Proof.
    intros M ws [[p c] o] g2 D H4 Hu Hr. destruct D as [q0 q1 q2 q3 mg skp].
    Ltac sgo H4 x1 D1 :=
      eapply (sstep_in _ _ _ _ _ x1 D1); [exact H4 | cbn [snext]; left; reflexivity | ].
    destruct p; try discriminate Hr.
    - exists c, o. sgo H4 (S_forever, c, o) (Dt q0 q1 q2 q3 mg skp).
      sgo H4 (S_kforever, c, o) (Dt q0 q1 q2 q3 mg skp).
      sgo H4 (S_select, c, o) (Dt q0 q1 q2 q3 mg skp). apply sstar_refl.
    - exists c, o. sgo H4 (S_kforever, c, o) (Dt q0 q1 q2 q3 mg skp).
      sgo H4 (S_select, c, o) (Dt q0 q1 q2 q3 mg skp). apply sstar_refl.
    - exists c, o. sgo H4 (S_select, c, o) (Dt q0 q1 q2 q3 mg skp). apply sstar_refl.
    - exists c, o. apply sstar_refl.
    - destruct o; [|discriminate Hu]. exists c, true.
      sgo H4 (S_kforever, c, true) (Dt q0 q1 q2 q3 mg skp).
      sgo H4 (S_select, c, true) (Dt q0 q1 q2 q3 mg skp). apply sstar_refl.
  Qed.

  (* workers that have left their loop execute wg.Done() silently *)
  Lemma drain_done : forall M g1 g2 D (ws a : list wst),
    cpast g2 = false -> forallb is_exited (map wabs ws) = true ->
    exists ws', sstar (mk_sk M (a ++ ws) g1 g2 D) (mk_sk M (a ++ ws') g1 g2 D) /\
                map wabs ws' = map wabs ws /\ pendings ws' = 0 /\ length ws' = length ws.
  Proof.
    intros M g1 g2 D ws. destruct D as [q0 q1 q2 q3 mg skp].
    induction ws as [|x ws IH]; intros a Hc Hall.
    - exists []. repeat split. apply sstar_refl.
    - cbn [map forallb] in Hall. apply andb_true_iff in Hall. destruct Hall as [Hx Hall].
      destruct x as [[p c] o].
      assert (Hcases : p = W_done \/ wpend p = 0).
      { destruct p; try discriminate Hx; auto. }
      destruct Hcases as [E | E].
      + subst p. destruct (IH (a ++ [(W_end, c, o)]) Hc Hall) as [ws' [H1 [H2 [H3 H4]]]].
        rewrite <- !app_assoc in H1. cbn [app] in H1.
        exists ((W_end, c, o) :: ws'). split; [|split; [|split]].
        * eapply (wstep_in _ _ _ _ _ _ _ (W_end, c, o) (Dt q0 q1 q2 q3 mg skp));
            [exact Hc | cbn [wnext]; left; reflexivity | exact H1].
        * cbn [map wabs]. rewrite H2. reflexivity.
        * change (pendings ((W_end, c, o) :: ws')) with (0 + pendings ws'). lia.
        * cbn [length]. lia.
      + destruct (IH (a ++ [(p, c, o)]) Hc Hall) as [ws' [H1 [H2 [H3 H4]]]].
        rewrite <- !app_assoc in H1. cbn [app] in H1.
        exists ((p, c, o) :: ws'). split; [exact H1 | split; [|split]].
        * cbn [map]. rewrite H2. reflexivity.
        * change (pendings ((p, c, o) :: ws')) with (wpend p + pendings ws'). lia.
        * cbn [length]. lia.
  Qed.

  Lemma complete_mk : forall M ws g1 g2 D t,
    wf M ws g1 g2 D -> sif_false g1 = false -> length ws = w -> spawned (fst (fst M)) = true ->
    pstep (absd M ws g1 g2 D) t ->
    exists d, sstar (mk_sk M ws g1 g2 D) (conc d) /\ uncommitted (conc d) = true /\
              abs files w (conc d) = t.
  Proof.
    intros M ws g1 g2 D t W Hun Hlen Hsp Hstep.
    pose proof W as W'. destruct W' as [W1 W2 W3 W4 W5 W6].
    destruct M as [[p c] o]. destruct D as [q0 q1 q2 q3 mg skp]. cbn [fst] in *.
    rewrite (absd_full _ _ _ _ _ Hlen) in Hstep. cbn [fst d_q0 d_q1 d_q2 d_q3 d_mg d_skp] in Hstep.
    inversion Hstep; subst; unfold file in *.
    Ltac side := first [assumption | reflexivity].
    Ltac mgo d :=
      eapply (mstep_in _ _ _ _ _ d);
      [side | side | side | cbn [mnext]; left; reflexivity | cbn [conc]].
    Ltac fin :=
      split; [cbn [conc]; rewrite uncommitted_mk;
              try match goal with H : sif_false _ = false |- _ => rewrite H end; reflexivity
             | cbn [conc]; rewrite abs_mk, absd_full by assumption; reflexivity].
    - (* step_m_send *)
      match goal with H : Sending _ = _ |- _ => rename H into Hm end.
      match goal with H : length q0 < n |- _ => apply Nat.ltb_lt in H; rename H into Hlt end.
      assert (Hn : negb (sif_false g1) = true) by (rewrite Hun; reflexivity).
      destruct p; try discriminate Hsp; try discriminate Hm.
      + (* M_foreach *) injection Hm as Hf.
        exists ((M_each rest, f, o), ws, g1, g2, Dt (q0 ++ [f]) q1 q2 q3 mg skp). split; [|fin].
        mgo ((M_each files, c, o), ws, g1, g2, Dt q0 q1 q2 q3 mg skp).
        eapply (mstep_in _ _ _ _ _ ((M_send rest, f, o), ws, g1, g2, Dt q0 q1 q2 q3 mg skp));
          [assumption | assumption | assumption | cbn [mnext]; rewrite <- Hf; left; reflexivity | cbn [conc]].
        eapply (mstep_in _ _ _ _ _ ((M_each rest, f, o), ws, g1, g2, Dt (q0 ++ [f]) q1 q2 q3 mg skp));
          [assumption | assumption | assumption | cbn [mnext]; rewrite Hlt; left; reflexivity | apply sstar_refl].
      + (* M_each *) injection Hm as Hf. subst rest0.
        exists ((M_each rest, f, o), ws, g1, g2, Dt (q0 ++ [f]) q1 q2 q3 mg skp). split; [|fin].
        mgo ((M_send rest, f, o), ws, g1, g2, Dt q0 q1 q2 q3 mg skp).
        eapply (mstep_in _ _ _ _ _ ((M_each rest, f, o), ws, g1, g2, Dt (q0 ++ [f]) q1 q2 q3 mg skp));
          [assumption | assumption | assumption | cbn [mnext]; rewrite Hlt; left; reflexivity | apply sstar_refl].
      + (* M_send *) injection Hm as Hf Hr. subst c rest0.
        exists ((M_each rest, f, o), ws, g1, g2, Dt (q0 ++ [f]) q1 q2 q3 mg skp). split; [|fin].
        eapply (mstep_in _ _ _ _ _ ((M_each rest, f, o), ws, g1, g2, Dt (q0 ++ [f]) q1 q2 q3 mg skp));
          [assumption | assumption | assumption | cbn [mnext]; rewrite Hlt; left; reflexivity | apply sstar_refl].
    - (* step_m_sent_all *)
      match goal with H : Sending _ = _ |- _ => rename H into Hm end.
      destruct p; try discriminate Hsp; try discriminate Hm.
      + injection Hm as Hf.
        exists ((M_close, c, o), ws, g1, g2, Dt q0 q1 q2 q3 mg skp). split; [|fin].
        mgo ((M_each files, c, o), ws, g1, g2, Dt q0 q1 q2 q3 mg skp).
        eapply (mstep_in _ _ _ _ _ ((M_close, c, o), ws, g1, g2, Dt q0 q1 q2 q3 mg skp));
          [side | side | side | cbn [mnext]; rewrite <- Hf; left; reflexivity | apply sstar_refl].
      + injection Hm as Hf. subst rest.
        exists ((M_close, c, o), ws, g1, g2, Dt q0 q1 q2 q3 mg skp). split; [|fin].
        mgo ((M_close, c, o), ws, g1, g2, Dt q0 q1 q2 q3 mg skp). apply sstar_refl.
    - (* step_m_close *)
      match goal with H : CloseFiles = _ |- _ => rename H into Hm end.
      destruct p; try discriminate Hsp; try discriminate Hm.
      exists ((M_make4, c, o), ws, g1, g2, Dt q0 q1 q2 q3 mg skp). split; [|fin].
      mgo ((M_make4, c, o), ws, g1, g2, Dt q0 q1 q2 q3 mg skp). apply sstar_refl.
    - (* step_m_start_status *)
      match goal with H : StartStatus = _ |- _ => rename H into Hm end.
      destruct p; try discriminate Hsp; try discriminate Hm;
        (destruct g1; [discriminate W2|]); (destruct g2; [discriminate W3|]);
        exists ((M_go2, c, o), ws, Some (S_defer, 0, true), @None cpc, Dt q0 q1 q2 q3 mg skp);
        (split; [|fin]).
      + mgo ((M_go1, c, o), ws, @None sst, @None cpc, Dt q0 q1 q2 q3 mg skp).
        mgo ((M_go2, c, o), ws, Some (S_defer, 0, true), @None cpc, Dt q0 q1 q2 q3 mg skp).
        apply sstar_refl.
      + mgo ((M_go2, c, o), ws, Some (S_defer, 0, true), @None cpc, Dt q0 q1 q2 q3 mg skp).
        apply sstar_refl.
    - (* step_m_start_closer *)
      match goal with H : StartCloser = _ |- _ => rename H into Hm end.
      destruct p; try discriminate Hsp; try discriminate Hm.
      destruct g2; [discriminate W3|].
      exists ((M_range, c, o), ws, g1, Some C_wait, Dt q0 q1 q2 q3 mg skp). split; [|fin].
      mgo ((M_range, c, o), ws, g1, Some C_wait, Dt q0 q1 q2 q3 mg skp). apply sstar_refl.
    - (* step_m_collect *)
      match goal with H : Collect = _ |- _ => rename H into Hm end.
      exists ((M_hook, f, true), ws, g1, g2, Dt q0 r q2 q3 (mg ++ [f]) skp).
      destruct p; try discriminate Hsp; try discriminate Hm; (split; [|fin]).
      + mgo ((M_krange, c, o), ws, g1, g2, Dt q0 (f :: r) q2 q3 mg skp).
        mgo ((M_hook, f, true), ws, g1, g2, Dt q0 r q2 q3 (mg ++ [f]) skp). apply sstar_refl.
      + mgo ((M_hook, f, true), ws, g1, g2, Dt q0 r q2 q3 (mg ++ [f]) skp). apply sstar_refl.
      + mgo ((M_krange, c, o), ws, g1, g2, Dt q0 (f :: r) q2 q3 mg skp).
        mgo ((M_hook, f, true), ws, g1, g2, Dt q0 r q2 q3 (mg ++ [f]) skp). apply sstar_refl.
    - (* step_m_done *)
      match goal with H : Collect = _ |- _ => rename H into Hm end.
      match goal with H : rclosed_c (cabs g2) = true |- _ => rename H into Hrc end.
      change (rclosed_c (cabs g2)) with (fl1 g2) in Hrc.
      exists ((M_join, c, o), ws, g1, g2, Dt q0 [] q2 q3 mg skp).
      destruct p; try discriminate Hsp; try discriminate Hm; (split; [|fin]).
      + mgo ((M_krange, c, o), ws, g1, g2, Dt q0 [] q2 q3 mg skp).
        eapply (mstep_in _ _ _ _ _ ((M_join, c, o), ws, g1, g2, Dt q0 [] q2 q3 mg skp));
          [side | side | side | cbn [mnext]; rewrite Hrc; left; reflexivity | apply sstar_refl].
      + eapply (mstep_in _ _ _ _ _ ((M_join, c, o), ws, g1, g2, Dt q0 [] q2 q3 mg skp));
          [side | side | side | cbn [mnext]; rewrite Hrc; left; reflexivity | apply sstar_refl].
      + mgo ((M_krange, c, o), ws, g1, g2, Dt q0 [] q2 q3 mg skp).
        eapply (mstep_in _ _ _ _ _ ((M_join, c, o), ws, g1, g2, Dt q0 [] q2 q3 mg skp));
          [side | side | side | cbn [mnext]; rewrite Hrc; left; reflexivity | apply sstar_refl].
    - (* step_m_join *)
      match goal with H : Join = _ |- _ => rename H into Hm end.
      match goal with H : GExited = sabs g1 |- _ => rename H into Hg end.
      assert (Hd : sdead g1 = true).
      { destruct g1 as [[[[] ?] ?]|]; try discriminate Hg; reflexivity. }
      destruct p; try discriminate Hsp; try discriminate Hm.
      exists ((M_ret, c, o), ws, g1, g2, Dt q0 q1 q2 q3 mg skp). split.
      + eapply (mstep_in _ _ _ _ _ ((M_ret, c, o), ws, g1, g2, Dt q0 q1 q2 q3 mg skp));
          [side | side | side | cbn [mnext]; rewrite Hd; left; reflexivity | apply sstar_refl].
      + split; [cbn [conc]; rewrite uncommitted_mk, Hun; reflexivity|].
        cbn [conc]. rewrite abs_mk, absd_full by assumption. cbn [fst d_q0 d_q1 d_q2 d_q3 d_mg d_skp mabs].
        rewrite <- Hg. reflexivity.
    Ltac wsplit W :=
      match goal with H : _ ++ _ :: _ = map wabs _ |- _ =>
        symmetry in H; apply map_wabs_split in H;
        let a := fresh "a" in let x := fresh "x" in let b := fresh "b" in
        let E := fresh "Ews" in let Ea := fresh "Ea" in let Ex := fresh "Ex" in let Eb := fresh "Eb" in
        destruct H as (a & x & b & E & Ea & Ex & Eb); subst;
        destruct x as [[wp wc] wo] end.
    Ltac wgo Hc x1 D1 :=
      eapply (wstep_in _ _ _ _ _ _ _ x1 D1); [exact Hc | cbn [wnext]; left; reflexivity | ].
    Ltac wfin Hlen :=
      split; [cbn [conc]; rewrite uncommitted_mk;
              try match goal with H : sif_false _ = false |- _ => rewrite H end; reflexivity
             | cbn [conc]; rewrite abs_mk, (absd_worker_full _ _ _ _ _ _ _ _ Hlen);
               cbn [fst d_q0 d_q1 d_q2 d_q3 d_mg d_skp wabs]; rewrite ?length_snoc;
               try match goal with H : true = past_close_m _ |- _ => rewrite <- H end; reflexivity].
    - (* step_w_recv *)
      wsplit W.
      assert (Hc : cpast g2 = false).
      { apply (pending_not_past _ _ _ _ _ _ _ _ _ W). destruct wp; try discriminate Ex; reflexivity. }
      exists ((p, c, o), a ++ (W_hook, f, true) :: b, g1, g2, Dt q q1 q2 q3 mg skp).
      destruct wp; try discriminate Ex; (split; [|wfin Hlen]).
      + wgo Hc (W_range, wc, wo) (Dt (f :: q) q1 q2 q3 mg skp).
        wgo Hc (W_hook, f, true) (Dt q q1 q2 q3 mg skp). apply sstar_refl.
      + wgo Hc (W_hook, f, true) (Dt q q1 q2 q3 mg skp). apply sstar_refl.
    Ltac wpend_c W Ex wp :=
      apply (pending_not_past _ _ _ _ _ _ _ _ _ W); destruct wp; try discriminate Ex; reflexivity.
    - (* step_w_exit *)
      wsplit W.
      assert (Hc : cpast g2 = false) by (wpend_c W Ex wp).
      match goal with H : true = past_close_m p |- _ => rename H into Hpc end.
      exists ((p, c, o), a ++ (W_done, wc, wo) :: b, g1, g2, Dt [] q1 q2 q3 mg skp).
      destruct wp; try discriminate Ex; (split; [|wfin Hlen]).
      + wgo Hc (W_range, wc, wo) (Dt [] q1 q2 q3 mg skp).
        eapply (wstep_in _ _ _ _ _ _ _ (W_done, wc, wo) (Dt [] q1 q2 q3 mg skp));
          [exact Hc | cbn [wnext fst]; rewrite <- Hpc; left; reflexivity | apply sstar_refl].
      + eapply (wstep_in _ _ _ _ _ _ _ (W_done, wc, wo) (Dt [] q1 q2 q3 mg skp));
          [exact Hc | cbn [wnext fst]; rewrite <- Hpc; left; reflexivity | apply sstar_refl].
    - (* step_w_status1 *)
      wsplit W.
      assert (Hc : cpast g2 = false) by (wpend_c W Ex wp).
      match goal with H : length q2 < w |- _ => apply Nat.ltb_lt in H; rename H into Hlt end.
      exists ((p, c, o), a ++ (W_rd, f, wo) :: b, g1, g2, Dt q0 q1 (q2 ++ [f]) q3 mg skp).
      destruct wp; try discriminate Ex; injection Ex as Ef; subst wc; (split; [|wfin Hlen]).
      + wgo Hc (W_s1, f, wo) (Dt q0 q1 q2 q3 mg skp).
        eapply (wstep_in _ _ _ _ _ _ _ (W_rd, f, wo) (Dt q0 q1 (q2 ++ [f]) q3 mg skp));
          [exact Hc | cbn [wnext]; rewrite Hlt; left; reflexivity | apply sstar_refl].
      + eapply (wstep_in _ _ _ _ _ _ _ (W_rd, f, wo) (Dt q0 q1 (q2 ++ [f]) q3 mg skp));
          [exact Hc | cbn [wnext]; rewrite Hlt; left; reflexivity | apply sstar_refl].
    - (* step_w_read_ok *)
      wsplit W.
      assert (Hc : cpast g2 = false) by (wpend_c W Ex wp).
      match goal with H : readable f = true |- _ => destruct (readable_true f H) as [Hr1 Hr2] end.
      exists ((p, c, o), a ++ (W_s2, f, wo) :: b, g1, g2, Dt q0 q1 q2 q3 mg skp).
      destruct wp; try discriminate Ex; injection Ex as Ef; subst wc; (split; [|wfin Hlen]).
      + eapply (wstep_in _ _ _ _ _ _ _ (W_ps, f, wo) (Dt q0 q1 q2 q3 mg skp));
          [exact Hc | cbn [wnext]; rewrite Hr1; left; reflexivity | ].
        eapply (wstep_in _ _ _ _ _ _ _ (W_s2, f, wo) (Dt q0 q1 q2 q3 mg skp));
          [exact Hc | cbn [wnext]; rewrite Hr2; left; reflexivity | apply sstar_refl].
      + eapply (wstep_in _ _ _ _ _ _ _ (W_s2, f, wo) (Dt q0 q1 q2 q3 mg skp));
          [exact Hc | cbn [wnext]; rewrite Hr2; left; reflexivity | apply sstar_refl].
    - (* step_w_read_fail *)
      wsplit W.
      assert (Hc : cpast g2 = false) by (wpend_c W Ex wp).
      match goal with H : readable f = false |- _ => rename H into Hr end.
      exists ((p, c, o), a ++ (W_range, f, wo) :: b, g1, g2, Dt q0 q1 q2 q3 mg (f :: skp)).
      destruct wp; try discriminate Ex; injection Ex as Ef; subst wc; (split; [|wfin Hlen]).
      + destruct (fails "readFile" f) eqn:Hf1.
        * eapply (wstep_in _ _ _ _ _ _ _ (W_range, f, wo) (Dt q0 q1 q2 q3 mg (f :: skp)));
            [exact Hc | cbn [wnext]; rewrite Hf1; left; reflexivity | apply sstar_refl].
        * assert (Hf2 : fails "parser.ParseCtx" f = true).
          { unfold SkelSim.readable in Hr. rewrite Hf1 in Hr. cbn in Hr.
            apply negb_false_iff in Hr. exact Hr. }
          eapply (wstep_in _ _ _ _ _ _ _ (W_ps, f, wo) (Dt q0 q1 q2 q3 mg skp));
            [exact Hc | cbn [wnext]; rewrite Hf1; left; reflexivity | ].
          eapply (wstep_in _ _ _ _ _ _ _ (W_range, f, wo) (Dt q0 q1 q2 q3 mg (f :: skp)));
            [exact Hc | cbn [wnext]; rewrite Hf2; left; reflexivity | apply sstar_refl].
      + assert (Hf1 : fails "readFile" f = false).
        { apply Forall_app in W6. destruct W6 as [_ W6]. apply Forall_cons_iff in W6. apply W6. }
        assert (Hf2 : fails "parser.ParseCtx" f = true).
        { unfold SkelSim.readable in Hr. rewrite Hf1 in Hr. cbn in Hr.
          apply negb_false_iff in Hr. exact Hr. }
        eapply (wstep_in _ _ _ _ _ _ _ (W_range, f, wo) (Dt q0 q1 q2 q3 mg (f :: skp)));
          [exact Hc | cbn [wnext]; rewrite Hf2; left; reflexivity | apply sstar_refl].
    - (* step_w_status2 *)
      wsplit W.
      assert (Hc : cpast g2 = false) by (wpend_c W Ex wp).
      match goal with H : length q2 < w |- _ => apply Nat.ltb_lt in H; rename H into Hlt end.
      exists ((p, c, o), a ++ (W_bd, f, wo) :: b, g1, g2, Dt q0 q1 (q2 ++ [f]) q3 mg skp).
      destruct wp; try discriminate Ex; injection Ex as Ef; subst wc; (split; [|wfin Hlen]).
      eapply (wstep_in _ _ _ _ _ _ _ (W_bd, f, wo) (Dt q0 q1 (q2 ++ [f]) q3 mg skp));
        [exact Hc | cbn [wnext]; rewrite Hlt; left; reflexivity | apply sstar_refl].
    - (* step_w_build *)
      wsplit W.
      assert (Hc : cpast g2 = false) by (wpend_c W Ex wp).
      exists ((p, c, o), a ++ (W_s3, f, wo) :: b, g1, g2, Dt q0 q1 q2 q3 mg skp).
      destruct wp; try discriminate Ex; injection Ex as Ef; subst wc; (split; [|wfin Hlen]).
      wgo Hc (W_s3, f, wo) (Dt q0 q1 q2 q3 mg skp). apply sstar_refl.
    - (* step_w_status3 *)
      wsplit W.
      assert (Hc : cpast g2 = false) by (wpend_c W Ex wp).
      match goal with H : length q2 < w |- _ => apply Nat.ltb_lt in H; rename H into Hlt end.
      exists ((p, c, o), a ++ (W_sr, f, wo) :: b, g1, g2, Dt q0 q1 (q2 ++ [f]) q3 mg skp).
      destruct wp; try discriminate Ex; injection Ex as Ef; subst wc; (split; [|wfin Hlen]).
      eapply (wstep_in _ _ _ _ _ _ _ (W_sr, f, wo) (Dt q0 q1 (q2 ++ [f]) q3 mg skp));
        [exact Hc | cbn [wnext]; rewrite Hlt; left; reflexivity | apply sstar_refl].
    - (* step_w_send_result *)
      wsplit W.
      assert (Hc : cpast g2 = false) by (wpend_c W Ex wp).
      match goal with H : length q1 < n |- _ => apply Nat.ltb_lt in H; rename H into Hlt end.
      exists ((p, c, o), a ++ (W_sp, f, wo) :: b, g1, g2, Dt q0 (q1 ++ [f]) q2 q3 mg skp).
      destruct wp; try discriminate Ex; injection Ex as Ef; subst wc; (split; [|wfin Hlen]).
      eapply (wstep_in _ _ _ _ _ _ _ (W_sp, f, wo) (Dt q0 (q1 ++ [f]) q2 q3 mg skp));
        [exact Hc | cbn [wnext]; rewrite Hlt; left; reflexivity | apply sstar_refl].
    - (* step_w_send_progress *)
      wsplit W.
      assert (Hc : cpast g2 = false) by (wpend_c W Ex wp).
      match goal with H : length q3 < n |- _ => apply Nat.ltb_lt in H; rename H into Hlt end.
      exists ((p, c, o), a ++ (W_range, f, wo) :: b, g1, g2, Dt q0 q1 q2 (q3 ++ [f]) mg skp).
      destruct wp; try discriminate Ex; injection Ex as Ef; subst wc; (split; [|wfin Hlen]).
      eapply (wstep_in _ _ _ _ _ _ _ (W_range, f, wo) (Dt q0 q1 q2 (q3 ++ [f]) mg skp));
        [exact Hc | cbn [wnext]; rewrite Hlt; left; reflexivity | apply sstar_refl].
    Ltac sgo' H4 x1 D1 :=
      eapply (sstep_in _ _ _ _ _ x1 D1); [exact H4 | | ].
    - (* step_g_status *)
      match goal with H : GRunning = sabs g1 |- _ => rename H into Hg end.
      match goal with H : S _ = length q2 |- _ => rename H into Hq end.
      destruct g1 as [x|]; [|discriminate Hg].
      assert (H4 : has_c4 p = true) by (apply (has_g1_c4 (p, c, o)); symmetry; exact W2).
      destruct (status_norm (p, c, o) ws x g2 (Dt q0 q1 q2 q3 mg skp) H4 Hun (eq_sym Hg)) as [c' [o' Hn]].
      destruct q2 as [|y r]; [discriminate Hq|]. injection Hq as Hq. subst a.
      exists ((p, c, o), ws, Some (S_if, y, true), g2, Dt q0 q1 r q3 mg skp). split; [|fin].
      eapply sstar_trans; [exact Hn|].
      sgo' H4 (S_if, y, true) (Dt q0 q1 r q3 mg skp); [|apply sstar_refl].
      cbn [snext]. apply in_or_app. left. left. reflexivity.
    - (* step_g_progress *)
      match goal with H : GRunning = sabs g1 |- _ => rename H into Hg end.
      match goal with H : S _ = length q3 |- _ => rename H into Hq end.
      destruct g1 as [x|]; [|discriminate Hg].
      assert (H4 : has_c4 p = true) by (apply (has_g1_c4 (p, c, o)); symmetry; exact W2).
      destruct (status_norm (p, c, o) ws x g2 (Dt q0 q1 q2 q3 mg skp) H4 Hun (eq_sym Hg)) as [c' [o' Hn]].
      destruct q3 as [|y r]; [discriminate Hq|]. injection Hq as Hq. subst p0.
      exists ((p, c, o), ws, Some (S_if, y, true), g2, Dt q0 q1 q2 r mg skp). split; [|fin].
      eapply sstar_trans; [exact Hn|].
      sgo' H4 (S_if, y, true) (Dt q0 q1 q2 r mg skp); [|apply sstar_refl].
      cbn [snext]. apply in_or_app. right. left. reflexivity.
    - (* step_g_exit_status *)
      match goal with H : GRunning = sabs g1 |- _ => rename H into Hg end.
      match goal with H : 0 = length q2 |- _ => rename H into Hq end.
      match goal with H : sclosed_c (cabs g2) = true |- _ => rename H into Hcl end.
      change (sclosed_c (cabs g2)) with (fl2 g2) in Hcl.
      destruct g1 as [x|]; [|discriminate Hg].
      assert (H4 : has_c4 p = true) by (apply (has_g1_c4 (p, c, o)); symmetry; exact W2).
      destruct (status_norm (p, c, o) ws x g2 (Dt q0 q1 q2 q3 mg skp) H4 Hun (eq_sym Hg)) as [c' [o' Hn]].
      destruct q2 as [|y r]; [|discriminate Hq].
      exists ((p, c, o), ws, Some (S_dead, c', false), g2, Dt q0 q1 [] q3 mg skp). split; [|fin].
      eapply sstar_trans; [exact Hn|].
      sgo' H4 (S_if, c', false) (Dt q0 q1 [] q3 mg skp).
      + cbn [snext]. rewrite Hcl. apply in_or_app. left. left. reflexivity.
      + sgo' H4 (S_dead, c', false) (Dt q0 q1 [] q3 mg skp); [left; reflexivity | apply sstar_refl].
    - (* step_g_exit_progress *)
      match goal with H : GRunning = sabs g1 |- _ => rename H into Hg end.
      match goal with H : 0 = length q3 |- _ => rename H into Hq end.
      match goal with H : pclosed_c (cabs g2) = true |- _ => rename H into Hcl end.
      change (pclosed_c (cabs g2)) with (fl3 g2) in Hcl.
      destruct g1 as [x|]; [|discriminate Hg].
      assert (H4 : has_c4 p = true) by (apply (has_g1_c4 (p, c, o)); symmetry; exact W2).
      destruct (status_norm (p, c, o) ws x g2 (Dt q0 q1 q2 q3 mg skp) H4 Hun (eq_sym Hg)) as [c' [o' Hn]].
      destruct q3 as [|y r]; [|discriminate Hq].
      exists ((p, c, o), ws, Some (S_dead, c', false), g2, Dt q0 q1 q2 [] mg skp). split; [|fin].
      eapply sstar_trans; [exact Hn|].
      sgo' H4 (S_if, c', false) (Dt q0 q1 q2 [] mg skp).
      + cbn [snext]. rewrite Hcl. apply in_or_app. right. left. reflexivity.
      + sgo' H4 (S_dead, c', false) (Dt q0 q1 q2 [] mg skp); [left; reflexivity | apply sstar_refl].
    - (* step_c_wait *)
      match goal with H : CWaiting = cabs g2 |- _ => rename H into Hg end.
      match goal with H : forallb is_exited _ = true |- _ => rename H into Hall end.
      destruct g2 as [[]|]; try discriminate Hg.
      + (* C_wait: the workers that have left their loop first call wg.Done() *)
        destruct (drain_done (p, c, o) g1 (Some C_wait) (Dt q0 q1 q2 q3 mg skp) ws [] eq_refl Hall)
          as [ws' [H1 [H2 [H3 H4]]]].
        cbn [app] in H1.
        exists ((p, c, o), ws', g1, Some C_c2, Dt q0 q1 q2 q3 mg skp). split; [|split].
        * eapply sstar_trans; [exact H1|].
          eapply (cstep_in _ _ _ _ _ C_c1).
          { cbn [cnext]. replace (wgof ws' =? 0) with true; [left; reflexivity|].
            symmetry. apply Nat.eqb_eq. unfold SkelSim.wgof. lia. }
          eapply (cstep_in _ _ _ _ _ C_c2); [left; reflexivity | apply sstar_refl].
        * cbn [conc]. rewrite uncommitted_mk, Hun. reflexivity.
        * cbn [conc]. rewrite abs_mk, absd_full by lia. rewrite H2. reflexivity.
      + exists ((p, c, o), ws, g1, Some C_c2, Dt q0 q1 q2 q3 mg skp). split; [|fin].
        eapply (cstep_in _ _ _ _ _ C_c2); [left; reflexivity | apply sstar_refl].
    - (* step_c_close_status *)
      match goal with H : CClosedR = cabs g2 |- _ => rename H into Hg end.
      destruct g2 as [[]|]; try discriminate Hg.
      exists ((p, c, o), ws, g1, Some C_c3, Dt q0 q1 q2 q3 mg skp). split; [|fin].
      eapply (cstep_in _ _ _ _ _ C_c3); [left; reflexivity | apply sstar_refl].
    - (* step_c_close_progress *)
      match goal with H : CClosedRS = cabs g2 |- _ => rename H into Hg end.
      destruct g2 as [[]|]; try discriminate Hg.
      exists ((p, c, o), ws, g1, Some C_end, Dt q0 q1 q2 q3 mg skp). split; [|fin].
      eapply (cstep_in _ _ _ _ _ C_end); [left; reflexivity | apply sstar_refl].
  Qed.

  (* ---------------------------------------------------------------------- *)
  (* The theorems                                                            *)
  (* ---------------------------------------------------------------------- *)

  Notation pre := (SkelSim.pre v files fails).

  Lemma pre_to_9 : forall k j, j + k = 9 -> sstar (pre j) (pre 9).
  Proof.
    induction k as [|k IH]; intros j Hj.
    - replace j with 9 by lia. apply sstar_refl.
    - eapply sstar_cons; [|apply (IH (S j)); lia].
      unfold SkelSim.sstep_w. rewrite (pre_steps v files fails j) by lia. left. reflexivity.
  Qed.

  (* per-state completeness, for configurations in which the status updater is not committed *)
  Theorem skel_complete_w : forall s t, sreach s -> uncommitted s = true ->
    pstep (abs files w s) t ->
    exists s', sstar s s' /\ uncommitted s' = true /\ abs files w s' = t.
  Proof.
    intros s t Hr Hu Hstep.
    assert (Hmk : forall M ws g1 g2 D, wf M ws g1 g2 D -> sif_false g1 = false ->
              pstep (absd M ws g1 g2 D) t ->
              exists s', sstar (mk_sk M ws g1 g2 D) s' /\ uncommitted s' = true /\ abs files w s' = t).
    { intros M ws g1 g2 D W Hun Hst.
      destruct (main_norm M ws g1 g2 D W) as [M' [ws' [H1 [H2 [H3 [H4 H5]]]]]].
      rewrite <- H2 in Hst.
      destruct (complete_mk M' ws' g1 g2 D t H3 Hun H4 H5 Hst) as [d [Hd1 [Hd2 Hd3]]].
      exists (conc d). split; [eapply sstar_trans; eassumption | split; assumption]. }
    pose proof (sreach_Inv_w v w Hv files fails s Hr) as HI.
    destruct HI as [j Hj | M ws g1 g2 D W].
    - rewrite (pre_abs v w files fails j) in Hstep by lia.
      rewrite <- (pre_abs v w files fails 9) in Hstep by lia.
      rewrite (pre_9 v w Hv files fails), abs_mk in Hstep.
      destruct (Hmk _ _ _ _ _ (wf_0 w fails) eq_refl Hstep) as [s' [H1 [H2 H3]]].
      exists s'. split; [|split; assumption].
      eapply sstar_trans; [apply (pre_to_9 (9 - j) j); lia|].
      rewrite (pre_9 v w Hv files fails). exact H1.
    - rewrite abs_mk in Hstep. rewrite uncommitted_mk in Hu.
      apply negb_true_iff in Hu. exact (Hmk _ _ _ _ _ W Hu Hstep).
  Qed.

  Lemma uncommitted_init : uncommitted (sk_init PROG) = true.
  Proof. reflexivity. Qed.

  Lemma cover_star : forall a b, Pool.star n w readable a b ->
    forall s, sreach s -> uncommitted s = true -> abs files w s = a ->
    exists s', sstar s s' /\ uncommitted s' = true /\ abs files w s' = b.
  Proof.
    intros a b H. induction H as [a | a1 a2 a3 Hst H IH]; intros s Hr Hu Ha.
    - exists s. split; [apply sstar_refl | split; assumption].
    - subst a1. destruct (skel_complete_w s a2 Hr Hu Hst) as [s2 [H1 [H2 H3]]].
      destruct (IH s2 (sstar_reach _ _ H1 Hr) H2 H3) as [s3 [H4 [H5 H6]]].
      exists s3. split; [eapply sstar_trans; eassumption | split; assumption].
  Qed.

  (* every Pool-reachable state is the abstraction of a reachable (uncommitted) configuration ... *)
  Theorem skel_covers_pool_w : forall a, Pool.reachable files w readable a ->
    exists s, sreach s /\ uncommitted s = true /\ abs files w s = a.
  Proof.
    intros a Ha.
    destruct (cover_star _ _ Ha (sk_init PROG) (SkelSim.sreach_init_w v files fails) uncommitted_init
                (skel_abs_init_w v w files fails)) as [s [H1 [H2 H3]]].
    exists s. split; [|split; assumption].
    eapply sstar_reach; [exact H1 | apply SkelSim.sreach_init_w].
  Qed.

  (* ... and every transition between Pool-reachable states is the image of a run of the program *)
  Theorem skel_covers_transitions_w : forall a t, Pool.reachable files w readable a -> pstep a t ->
    exists s s', sreach s /\ sstar s s' /\ abs files w s = a /\ abs files w s' = t.
  Proof.
    intros a t Ha Hst. destruct (skel_covers_pool_w a Ha) as [s [H1 [H2 H3]]].
    rewrite <- H3 in Hst. destruct (skel_complete_w s t H1 H2 Hst) as [s' [H4 [H5 H6]]].
    exists s, s'. auto.
  Qed.

End ComplW.

Print Assumptions skel_complete_w.
Print Assumptions skel_covers_pool_w.
Print Assumptions skel_covers_transitions_w.

(* ---------------------------------------------------------------------- *)
(* The extracted program: numWorkers = 5                                   *)
(* ---------------------------------------------------------------------- *)

Section Compl.
  Variable files : list nat.
  Variable fails : bytes -> nat -> bool.

  Notation sreach := (SkelSim.sreach files fails).
  Notation sstep := (SkelSim.sstep files fails).
  Notation readable := (SkelSim.readable fails).

  (* finitely many steps of the program *)
  Inductive sruns : sk -> sk -> Prop :=
  | sruns_refl : forall s, sruns s s
  | sruns_cons : forall s1 s2 s3, sstep s1 s2 -> sruns s2 s3 -> sruns s1 s3.

  Lemma sstar_5 : forall s s', sstar "5" files fails s s' -> sruns s s'.
  Proof.
    intros s s' H. induction H as [s | a b c Hs H IH]; [apply sruns_refl|].
    eapply sruns_cons; [exact Hs | exact IH].
  Qed.

  Lemma sreach_of_5 : forall s, sreach_w "5" files fails s -> sreach s.
  Proof.
    intros s H. induction H as [|s s' H IH Hs].
    - exact (sreach_init files fails).
    - exact (sreach_step files fails s s' IH Hs).
  Qed.

  Lemma sruns_reach : forall s s', sruns s s' -> sreach s -> sreach s'.
  Proof.
    intros s s' H. induction H as [s | a b c Hs H IH]; intros Hr; [exact Hr|].
    apply IH. eapply sreach_step; eassumption.
  Qed.

  Theorem skel_complete : forall s t, sreach s -> uncommitted s = true ->
    Pool.step (length files) 5 readable (abs files 5 s) t ->
    exists s', sruns s s' /\ uncommitted s' = true /\ abs files 5 s' = t.
  Proof.
    intros s t Hr Hu Hst.
    destruct (skel_complete_w "5" 5 eq_refl files fails s t (sreach_5 files fails s Hr) Hu Hst)
      as [s' [H1 [H2 H3]]].
    exists s'. split; [apply sstar_5; exact H1 | split; assumption].
  Qed.

  Theorem skel_covers_pool : forall a, Pool.reachable files 5 readable a ->
    exists s, sreach s /\ uncommitted s = true /\ abs files 5 s = a.
  Proof.
    intros a Ha.
    destruct (skel_covers_pool_w "5" 5 eq_refl files fails a Ha) as [s [H1 [H2 H3]]].
    exists s. split; [apply sreach_of_5; exact H1 | split; assumption].
  Qed.

  Theorem skel_covers_transitions : forall a t, Pool.reachable files 5 readable a ->
    Pool.step (length files) 5 readable a t ->
    exists s s', sreach s /\ sruns s s' /\ abs files 5 s = a /\ abs files 5 s' = t.
  Proof.
    intros a t Ha Hst.
    destruct (skel_covers_transitions_w "5" 5 eq_refl files fails a t Ha Hst) as [s [s' [H1 [H2 [H3 H4]]]]].
    exists s, s'. split; [apply sreach_of_5; exact H1 | split; [apply sstar_5; exact H2 | auto]].
  Qed.

  (* with SkelSim.skel_reach_pool: the abstractions of the reachable configurations are exactly the
     Pool-reachable states *)
  Corollary skel_image_exact : forall a,
    Pool.reachable files 5 readable a <-> exists s, sreach s /\ abs files 5 s = a.
  Proof.
    intros a. split.
    - intros Ha. destruct (skel_covers_pool a Ha) as [s [H1 [_ H3]]]. exists s. auto.
    - intros [s [H1 H2]]. subst a. apply skel_reach_pool. exact H1.
  Qed.

  (* bounded enumeration of the configurations reachable from s (used for the counterexample) *)
  Fixpoint reach_upto (k : nat) (s : sk) : list sk :=
    s :: match k with
         | 0 => []
         | S k' => flat_map (reach_upto k') (sk_steps pool_program_modelled files fails s)
         end.

  Inductive srunsN : nat -> sk -> sk -> Prop :=
  | srunsN_O : forall s, srunsN 0 s s
  | srunsN_S : forall k s1 s2 s3, sstep s1 s2 -> srunsN k s2 s3 -> srunsN (S k) s1 s3.

  Lemma sruns_N : forall s s', sruns s s' -> exists k, srunsN k s s'.
  Proof.
    intros s s' H. induction H as [s | a b c Hs H [k IH]]; [exists 0; constructor|].
    exists (S k). econstructor; eassumption.
  Qed.

  Lemma srunsN_measure : forall k s s', srunsN k s s' -> sreach s ->
    k + sk_measure files s' <= sk_measure files s.
  Proof.
    intros k s s' H. induction H as [s | k a b c Hs H IH]; intros Hr; [lia|].
    pose proof (skel_variant files fails a b Hr Hs).
    assert (Hrb : sreach b) by (eapply sreach_step; eassumption).
    specialize (IH Hrb). lia.
  Qed.

  Lemma srunsN_upto : forall k j s s', srunsN j s s' -> j <= k -> In s' (reach_upto k s).
  Proof.
    induction k as [|k IH]; intros j s s' H Hj.
    - assert (j = 0) by lia. subst j. inversion H; subst. left. reflexivity.
    - inversion H; subst; [left; reflexivity|].
      right. apply in_flat_map. exists s2. split; [assumption|].
      eapply IH; [eassumption | lia].
  Qed.

  Lemma sruns_upto : forall s s', sreach s -> sruns s s' -> In s' (reach_upto (sk_measure files s) s).
  Proof.
    intros s s' Hr H. destruct (sruns_N s s' H) as [k Hk].
    pose proof (srunsN_measure k s s' Hk Hr). eapply srunsN_upto; [exact Hk | lia].
  Qed.
End Compl.

(* ---------------------------------------------------------------------- *)
(* The unrestricted per-state completeness is false                        *)
(* ---------------------------------------------------------------------- *)

Definition cx_files : list nat := [7].
Definition cx_fails : bytes -> nat -> bool := fun _ _ => false.

(* choice c picks successor number min c (last) *)
Fixpoint run_sk (sched : list nat) (s : sk) : sk :=
  match sched with
  | [] => s
  | c :: r =>
      let l := sk_steps pool_program_modelled cx_files cx_fails s in
      match nth_error l (Nat.min c (length l - 1)) with
      | Some s' => run_sk r s'
      | None => s
      end
  end.

Lemma run_sk_reach : forall sched s, sreach cx_files cx_fails s -> sreach cx_files cx_fails (run_sk sched s).
Proof.
  induction sched as [|c r IH]; intros s Hr; [exact Hr|].
  cbn [run_sk].
  destruct (nth_error (sk_steps pool_program_modelled cx_files cx_fails s)
              (Nat.min c (length (sk_steps pool_program_modelled cx_files cx_fails s) - 1))) as [s'|] eqn:E;
    [|exact Hr].
  apply IH. eapply sreach_step; [exact Hr|]. unfold SkelSim.sstep. eapply nth_error_In. exact E.
Qed.

(* one readable file; the first worker handles it, everybody else runs to completion, the status
   updater receives the progress item, the closer closes the three channels, and the updater's next
   select takes the case of the closed and drained progressChan (ok = false) while the closed
   statusChan still holds the three status items *)
Definition cx_sched : list nat := repeat 0 65 ++ [1; 0; 0; 99; 99; 0; 99; 99; 99; 1].
Definition cx_s : sk := run_sk cx_sched (sk_init pool_program_modelled).
Definition cx_t : state :=
  St Join [] true [WExited; WExited; WExited; WExited; WExited] 2 0 [] GRunning CFired [7] [].

Lemma cx_reach : sreach cx_files cx_fails cx_s.
Proof. apply run_sk_reach. apply sreach_init. Qed.

Lemma cx_abs : abs cx_files 5 cx_s =
  St Join [] true [WExited; WExited; WExited; WExited; WExited] 3 0 [] GRunning CFired [7] [].
Proof. vm_compute. reflexivity. Qed.

Lemma cx_committed : uncommitted cx_s = false.
Proof. vm_compute. reflexivity. Qed.

Lemma cx_step : Pool.step (length cx_files) 5 (readable cx_fails) (abs cx_files 5 cx_s) cx_t.
Proof. rewrite cx_abs. apply step_g_status. Qed.

Lemma cx_stuck : forall s', sruns cx_files cx_fails cx_s s' -> sq (abs cx_files 5 s') = 3.
Proof.
  intros s' H. pose proof (sruns_upto cx_files cx_fails cx_s s' cx_reach H) as Hin.
  assert (Hall : forallb (fun x => sq (abs cx_files 5 x) =? 3)
                   (reach_upto cx_files cx_fails (sk_measure cx_files cx_s) cx_s) = true).
  { vm_compute. reflexivity. }
  rewrite forallb_forall in Hall. apply Nat.eqb_eq. apply Hall. exact Hin.
Qed.

(* a reachable configuration and a Pool.step out of its abstraction that no run of the program matches *)
Theorem skel_completeness_counterexample :
  exists files fails s t,
    sreach files fails s /\
    Pool.step (length files) 5 (readable fails) (abs files 5 s) t /\
    forall s', sruns files fails s s' -> abs files 5 s' <> t.
Proof.
  exists cx_files, cx_fails, cx_s, cx_t. split; [exact cx_reach | split; [exact cx_step|]].
  intros s' H E. pose proof (cx_stuck s' H) as Hq. rewrite E in Hq. discriminate Hq.
Qed.

Print Assumptions skel_complete.
Print Assumptions skel_covers_pool.
Print Assumptions skel_covers_transitions.
Print Assumptions skel_image_exact.
Print Assumptions skel_completeness_counterexample.
