(* Pool.v -- labelled transition system for the goroutine / channel protocol of
   [Initialize] in sourcecode-parser/graph/construct.go (worker pool).

   Self-contained: stdlib List / Arith / Lia / Bool only.  Files are abstract
   [nat] identifiers.  All facts are in PoolFacts.v.

   Go code being modelled (construct.go, func Initialize):

     fileChan     := make(chan string,     totalFiles)     cap n
     resultChan   := make(chan *CodeGraph, totalFiles)     cap n
     statusChan   := make(chan string,     numWorkers)     cap w
     progressChan := make(chan int,        totalFiles)     cap n

     worker:  for file := range fileChan {
                statusChan <- "reading"                    Status1
                readFile / parser.ParseCtx; on err: continue    Read
                statusChan <- "building"                   Status2
                buildGraphFromAST                          Build
                statusChan <- "done"                       Status3
                resultChan <- localGraph                   SendResult
                progressChan <- 1                          SendProgress
              }
              wg.Done()                                    WExited

     main:    go worker x w ; for files { fileChan <- f } ; close(fileChan) ;
              go status-updater ; go closer ; for g := range resultChan { merge } ;
              <-statusDone         (closed by the status updater when it returns)

     status:  for { select { case _, ok := <-statusChan:   if !ok {return}
                             case _, ok := <-progressChan: if !ok {return} } }

     closer:  wg.Wait(); close(resultChan); close(statusChan); close(progressChan)

   Modelling decisions are listed at the end of this file. *)

From Coq Require Import List Arith Lia Bool.
Import ListNotations.

Definition file := nat.

(* program counter of the main goroutine (after the workers were spawned) *)
Inductive mstate : Type :=
| Sending (rest : list file)  (* in the loop [for _, file := range files] *)
| CloseFiles                  (* about to [close(fileChan)] *)
| StartStatus                 (* about to [go func() { status updater }] *)
| StartCloser                 (* about to [go func() { wg.Wait(); close... }] *)
| Collect                     (* in [for localGraph := range resultChan] *)
| Join                        (* the range loop has terminated; at [<-statusDone] *)
| Done.                       (* Initialize returns *)

(* program counter of one worker goroutine; [X f] = about to perform action X
   on file f *)
Inductive wstate : Type :=
| Recv                        (* at [for file := range fileChan] *)
| Status1 (f : file)          (* about to send 1st status line *)
| Read (f : file)             (* about to readFile + ParseCtx *)
| Status2 (f : file)
| Build (f : file)            (* about to buildGraphFromAST *)
| Status3 (f : file)
| SendResult (f : file)       (* about to [resultChan <- localGraph] *)
| SendProgress (f : file)     (* about to [progressChan <- 1] *)
| WExited.                    (* has executed [wg.Done()] *)

(* status-updater goroutine *)
Inductive gstate : Type := GNotStarted | GRunning | GExited.

(* closer goroutine.  The three [close] calls are separate transitions; which
   channels are closed is a function of this program counter. *)
Inductive cstate : Type :=
| CNotStarted
| CWaiting          (* in [wg.Wait()] *)
| CClosedR          (* resultChan closed *)
| CClosedRS         (* resultChan, statusChan closed *)
| CFired.           (* all three closed; goroutine finished *)

Record state : Type := St {
  main    : mstate;
  fq      : list file;     (* fileChan buffer, head = oldest *)
  fclosed : bool;          (* fileChan closed *)
  wk      : list wstate;   (* the workers *)
  sq      : nat;           (* number of items buffered in statusChan *)
  pq      : nat;           (* number of items buffered in progressChan *)
  rq      : list file;     (* resultChan buffer, head = oldest *)
  status  : gstate;
  closer  : cstate;
  merged  : list file;     (* results merged by main, in arrival order *)
  skipped : list file      (* GHOST: files dropped by [continue] (read/parse error) *)
}.

Definition rclosed_c (c : cstate) : bool :=
  match c with CClosedR | CClosedRS | CFired => true | _ => false end.
Definition sclosed_c (c : cstate) : bool :=
  match c with CClosedRS | CFired => true | _ => false end.
Definition pclosed_c (c : cstate) : bool :=
  match c with CFired => true | _ => false end.

Definition rclosed (s : state) : bool := rclosed_c (closer s).
Definition sclosed (s : state) : bool := sclosed_c (closer s).
Definition pclosed (s : state) : bool := pclosed_c (closer s).

Definition is_exited (x : wstate) : bool :=
  match x with WExited => true | _ => false end.

Definition init (files : list file) (w : nat) : state :=
  St (Sending files) [] false (repeat Recv w) 0 0 [] GNotStarted CNotStarted [] [].

Section Model.

  Variable n : nat.                   (* cap fileChan = cap resultChan = cap progressChan *)
  Variable w : nat.                   (* cap statusChan (= number of workers in [init]) *)
  Variable readable : file -> bool.   (* readFile and ParseCtx both succeed *)

  (* One constructor per goroutine action.  A send on a buffered channel is
     enabled iff the buffer is not full (the guard is explicit, also for the
     channels of capacity n; PoolFacts proves these guards always hold). *)
  Inductive step : state -> state -> Prop :=
  (* ---------------- main ---------------- *)
  | step_m_send : forall f rest q fc ws a p r st co mg sk,
      length q < n ->
      step (St (Sending (f :: rest)) q fc ws a p r st co mg sk)
           (St (Sending rest) (q ++ [f]) fc ws a p r st co mg sk)
  | step_m_sent_all : forall q fc ws a p r st co mg sk,
      step (St (Sending []) q fc ws a p r st co mg sk)
           (St CloseFiles q fc ws a p r st co mg sk)
  | step_m_close : forall q fc ws a p r st co mg sk,
      step (St CloseFiles q fc ws a p r st co mg sk)
           (St StartStatus q true ws a p r st co mg sk)
  | step_m_start_status : forall q fc ws a p r st co mg sk,
      step (St StartStatus q fc ws a p r st co mg sk)
           (St StartCloser q fc ws a p r GRunning co mg sk)
  | step_m_start_closer : forall q fc ws a p r st co mg sk,
      step (St StartCloser q fc ws a p r st co mg sk)
           (St Collect q fc ws a p r st CWaiting mg sk)
  | step_m_collect : forall f q fc ws a p r st co mg sk,
      step (St Collect q fc ws a p (f :: r) st co mg sk)
           (St Collect q fc ws a p r st co (mg ++ [f]) sk)
  | step_m_done : forall q fc ws a p st co mg sk,
      rclosed_c co = true ->
      step (St Collect q fc ws a p [] st co mg sk)
           (St Join q fc ws a p [] st co mg sk)
  | step_m_join : forall q fc ws a p r co mg sk,
      step (St Join q fc ws a p r GExited co mg sk)
           (St Done q fc ws a p r GExited co mg sk)
  (* ---------------- worker (the one between l1 and l2) ---------------- *)
  | step_w_recv : forall f m q fc l1 l2 a p r st co mg sk,
      step (St m (f :: q) fc (l1 ++ Recv :: l2) a p r st co mg sk)
           (St m q fc (l1 ++ Status1 f :: l2) a p r st co mg sk)
  | step_w_exit : forall m l1 l2 a p r st co mg sk,
      step (St m [] true (l1 ++ Recv :: l2) a p r st co mg sk)
           (St m [] true (l1 ++ WExited :: l2) a p r st co mg sk)
  | step_w_status1 : forall f m q fc l1 l2 a p r st co mg sk,
      a < w ->
      step (St m q fc (l1 ++ Status1 f :: l2) a p r st co mg sk)
           (St m q fc (l1 ++ Read f :: l2) (S a) p r st co mg sk)
  | step_w_read_ok : forall f m q fc l1 l2 a p r st co mg sk,
      readable f = true ->
      step (St m q fc (l1 ++ Read f :: l2) a p r st co mg sk)
           (St m q fc (l1 ++ Status2 f :: l2) a p r st co mg sk)
  | step_w_read_fail : forall f m q fc l1 l2 a p r st co mg sk,
      readable f = false ->
      step (St m q fc (l1 ++ Read f :: l2) a p r st co mg sk)
           (St m q fc (l1 ++ Recv :: l2) a p r st co mg (f :: sk))
  | step_w_status2 : forall f m q fc l1 l2 a p r st co mg sk,
      a < w ->
      step (St m q fc (l1 ++ Status2 f :: l2) a p r st co mg sk)
           (St m q fc (l1 ++ Build f :: l2) (S a) p r st co mg sk)
  | step_w_build : forall f m q fc l1 l2 a p r st co mg sk,
      step (St m q fc (l1 ++ Build f :: l2) a p r st co mg sk)
           (St m q fc (l1 ++ Status3 f :: l2) a p r st co mg sk)
  | step_w_status3 : forall f m q fc l1 l2 a p r st co mg sk,
      a < w ->
      step (St m q fc (l1 ++ Status3 f :: l2) a p r st co mg sk)
           (St m q fc (l1 ++ SendResult f :: l2) (S a) p r st co mg sk)
  | step_w_send_result : forall f m q fc l1 l2 a p r st co mg sk,
      length r < n ->
      step (St m q fc (l1 ++ SendResult f :: l2) a p r st co mg sk)
           (St m q fc (l1 ++ SendProgress f :: l2) a p (r ++ [f]) st co mg sk)
  | step_w_send_progress : forall f m q fc l1 l2 a p r st co mg sk,
      p < n ->
      step (St m q fc (l1 ++ SendProgress f :: l2) a p r st co mg sk)
           (St m q fc (l1 ++ Recv :: l2) a (S p) r st co mg sk)
  (* ---------------- status updater (one select round) ---------------- *)
  | step_g_status : forall m q fc ws a p r co mg sk,
      step (St m q fc ws (S a) p r GRunning co mg sk)
           (St m q fc ws a p r GRunning co mg sk)
  | step_g_progress : forall m q fc ws a p r co mg sk,
      step (St m q fc ws a (S p) r GRunning co mg sk)
           (St m q fc ws a p r GRunning co mg sk)
  | step_g_exit_status : forall m q fc ws p r co mg sk,
      sclosed_c co = true ->       (* statusChan closed AND drained: ok = false *)
      step (St m q fc ws 0 p r GRunning co mg sk)
           (St m q fc ws 0 p r GExited co mg sk)
  | step_g_exit_progress : forall m q fc ws a r co mg sk,
      pclosed_c co = true ->       (* progressChan closed AND drained: ok = false *)
      step (St m q fc ws a 0 r GRunning co mg sk)
           (St m q fc ws a 0 r GExited co mg sk)
  (* ---------------- closer ---------------- *)
  | step_c_wait : forall m q fc ws a p r st mg sk,
      forallb is_exited ws = true ->       (* wg counter is 0 *)
      step (St m q fc ws a p r st CWaiting mg sk)
           (St m q fc ws a p r st CClosedR mg sk)
  | step_c_close_status : forall m q fc ws a p r st mg sk,
      step (St m q fc ws a p r st CClosedR mg sk)
           (St m q fc ws a p r st CClosedRS mg sk)
  | step_c_close_progress : forall m q fc ws a p r st mg sk,
      step (St m q fc ws a p r st CClosedRS mg sk)
           (St m q fc ws a p r st CFired mg sk).

  (* reflexive-transitive closure, and bounded versions *)
  Inductive star : state -> state -> Prop :=
  | star_refl : forall s, star s s
  | star_step : forall s1 s2 s3, step s1 s2 -> star s2 s3 -> star s1 s3.

  Inductive nsteps : nat -> state -> state -> Prop :=
  | nsteps_O : forall s, nsteps 0 s s
  | nsteps_S : forall k s1 s2 s3, step s1 s2 -> nsteps k s2 s3 -> nsteps (S k) s1 s3.

  Definition terminal (s : state) : Prop := forall s', ~ step s s'.

  (* ------------------------------------------------------------------ *)
  (* Executable successor function                                      *)
  (* ------------------------------------------------------------------ *)

  Fixpoint splits {A : Type} (l : list A) : list (list A * A * list A) :=
    match l with
    | [] => []
    | x :: t => ([], x, t) :: map (fun '(l1, y, l2) => (x :: l1, y, l2)) (splits t)
    end.

  Definition main_steps (s : state) : list state :=
    let '(St m q fc ws a p r st co mg sk) := s in
    match m with
    | Sending (f :: rest) =>
        if length q <? n then [St (Sending rest) (q ++ [f]) fc ws a p r st co mg sk] else []
    | Sending [] => [St CloseFiles q fc ws a p r st co mg sk]
    | CloseFiles => [St StartStatus q true ws a p r st co mg sk]
    | StartStatus => [St StartCloser q fc ws a p r GRunning co mg sk]
    | StartCloser => [St Collect q fc ws a p r st CWaiting mg sk]
    | Collect =>
        match r with
        | f :: r' => [St Collect q fc ws a p r' st co (mg ++ [f]) sk]
        | [] => if rclosed_c co then [St Join q fc ws a p [] st co mg sk] else []
        end
    | Join => match st with GExited => [St Done q fc ws a p r GExited co mg sk] | _ => [] end
    | Done => []
    end.

  Definition worker_steps_at (s : state) (l1 : list wstate) (x : wstate) (l2 : list wstate)
    : list state :=
    let '(St m q fc _ a p r st co mg sk) := s in
    match x with
    | Recv =>
        match q with
        | f :: q' => [St m q' fc (l1 ++ Status1 f :: l2) a p r st co mg sk]
        | [] => if fc then [St m [] true (l1 ++ WExited :: l2) a p r st co mg sk] else []
        end
    | Status1 f =>
        if a <? w then [St m q fc (l1 ++ Read f :: l2) (S a) p r st co mg sk] else []
    | Read f =>
        if readable f
        then [St m q fc (l1 ++ Status2 f :: l2) a p r st co mg sk]
        else [St m q fc (l1 ++ Recv :: l2) a p r st co mg (f :: sk)]
    | Status2 f =>
        if a <? w then [St m q fc (l1 ++ Build f :: l2) (S a) p r st co mg sk] else []
    | Build f => [St m q fc (l1 ++ Status3 f :: l2) a p r st co mg sk]
    | Status3 f =>
        if a <? w then [St m q fc (l1 ++ SendResult f :: l2) (S a) p r st co mg sk] else []
    | SendResult f =>
        if length r <? n
        then [St m q fc (l1 ++ SendProgress f :: l2) a p (r ++ [f]) st co mg sk] else []
    | SendProgress f =>
        if p <? n then [St m q fc (l1 ++ Recv :: l2) a (S p) r st co mg sk] else []
    | WExited => []
    end.

  Definition worker_steps (s : state) : list state :=
    flat_map (fun '(l1, x, l2) => worker_steps_at s l1 x l2) (splits (wk s)).

  Definition status_steps (s : state) : list state :=
    let '(St m q fc ws a p r st co mg sk) := s in
    match st with
    | GRunning =>
        (match a with S a' => [St m q fc ws a' p r GRunning co mg sk] | 0 => [] end) ++
        (match p with S p' => [St m q fc ws a p' r GRunning co mg sk] | 0 => [] end) ++
        (match a with
         | 0 => if sclosed_c co then [St m q fc ws 0 p r GExited co mg sk] else []
         | _ => [] end) ++
        (match p with
         | 0 => if pclosed_c co then [St m q fc ws a 0 r GExited co mg sk] else []
         | _ => [] end)
    | _ => []
    end.

  Definition closer_steps (s : state) : list state :=
    let '(St m q fc ws a p r st co mg sk) := s in
    match co with
    | CWaiting => if forallb is_exited ws then [St m q fc ws a p r st CClosedR mg sk] else []
    | CClosedR => [St m q fc ws a p r st CClosedRS mg sk]
    | CClosedRS => [St m q fc ws a p r st CFired mg sk]
    | _ => []
    end.

  (* all successors of s; [In s' (enabled_steps s) <-> step s s'] is
     PoolFacts.enabled_steps_iff *)
  Definition enabled_steps (s : state) : list state :=
    main_steps s ++ worker_steps s ++ status_steps s ++ closer_steps s.

  (* a scheduler is a list of choices; choice c picks successor number
     [c mod (number of successors)].  Stops early in a terminal state. *)
  Fixpoint run_sched (sched : list nat) (s : state) : state :=
    match sched with
    | [] => s
    | c :: sched' =>
        match enabled_steps s with
        | [] => s
        | s1 :: l => run_sched sched' (nth (c mod (S (length l))) (s1 :: l) s1)
        end
    end.

  (* ------------------------------------------------------------------ *)
  (* Termination measure                                                *)
  (* ------------------------------------------------------------------ *)

  (* upper bound on the number of steps still caused by one worker in a given
     local state, including the later consumption of everything it sends *)
  Definition wweight (x : wstate) : nat :=
    match x with
    | WExited => 0
    | Recv => 1
    | SendProgress _ => 3     (* send; item consumed; back in Recv *)
    | SendResult _ => 5
    | Status3 _ => 7
    | Build _ => 8
    | Status2 _ => 10
    | Read _ => 11
    | Status1 _ => 13
    end.

  Definition fweight : nat := 13.        (* one file waiting in fileChan *)

  (* StartStatus / StartCloser overwrite the [status] / [closer] component, so
     main's weight pays for the largest possible weight of the new component *)
  Definition mweight (m : mstate) : nat :=
    match m with
    | Sending rest => 10 + (S fweight) * length rest
    | CloseFiles => 9
    | StartStatus => 8
    | StartCloser => 6
    | Collect => 2
    | Join => 1
    | Done => 0
    end.

  Definition gweight (g : gstate) : nat :=
    match g with GNotStarted => 1 | GRunning => 1 | GExited => 0 end.

  Definition cweight (c : cstate) : nat :=
    match c with
    | CNotStarted => 3 | CWaiting => 3 | CClosedR => 2 | CClosedRS => 1 | CFired => 0
    end.

  Definition measure (s : state) : nat :=
    mweight (main s) + fweight * length (fq s)
    + list_sum (map wweight (wk s))
    + sq s + pq s + length (rq s)
    + gweight (status s) + cweight (closer s).

End Model.

(* ---------------------------------------------------------------------- *)
(* Derived notions used in the invariant                                   *)
(* ---------------------------------------------------------------------- *)

Definition rest_of (m : mstate) : list file :=
  match m with Sending rest => rest | _ => [] end.

(* file currently owned by a worker (taken from fileChan, result not yet sent) *)
Definition wheld (x : wstate) : list file :=
  match x with
  | Status1 f | Read f | Status2 f | Build f | Status3 f | SendResult f => [f]
  | Recv | SendProgress _ | WExited => []
  end.

(* ... and already successfully read *)
Definition wheld_r (x : wstate) : list file :=
  match x with
  | Status2 f | Build f | Status3 f | SendResult f => [f]
  | _ => []
  end.

Definition held (ws : list wstate) : list file := flat_map wheld ws.
Definition held_r (ws : list wstate) : list file := flat_map wheld_r ws.

Definition is_sp (x : wstate) : nat :=
  match x with SendProgress _ => 1 | _ => 0 end.
Definition count_sp (ws : list wstate) : nat := list_sum (map is_sp ws).

(* where every file is *)
Definition all_files (s : state) : list file :=
  rest_of (main s) ++ fq s ++ held (wk s) ++ rq s ++ merged s ++ skipped s.

(* main has executed close(fileChan) *)
Definition past_close (m : mstate) : bool :=
  match m with Sending _ | CloseFiles => false | _ => true end.

(* main has executed [go status-updater] *)
Definition past_status (m : mstate) : bool :=
  match m with StartCloser | Collect | Join | Done => true | _ => false end.

(* main has executed [go closer] *)
Definition past_closer (m : mstate) : bool :=
  match m with Collect | Join | Done => true | _ => false end.

(* reachable states of the protocol for a given list of files, w workers *)
Definition reachable (files : list file) (w : nat) (readable : file -> bool)
  (s : state) : Prop :=
  star (length files) w readable (init files w) s.

(* Specification of the possible merge orders: [buffered w h q p] says that
   the output sequence p can be produced from the input sequence q through a
   reorder buffer that currently holds h and has room for w elements
   (take the next input if there is room, or emit any buffered element). *)
Inductive buffered (w : nat) : list file -> list file -> list file -> Prop :=
| buf_done : buffered w [] [] []
| buf_take : forall h f q p,
    length h < w -> buffered w (h ++ [f]) q p -> buffered w h (f :: q) p
| buf_emit : forall h1 f h2 q p,
    buffered w (h1 ++ h2) q p -> buffered w (h1 ++ f :: h2) q (f :: p).

(* ======================================================================
   MODELLING DECISIONS

   1. Goroutine creation.  [go worker(i+1)] happens before the first file is
      sent.  [go f()] never blocks, and a worker that has been created but not
      scheduled is observationally the same as a worker sitting at
      [range fileChan] (state [Recv]).  So [init] has all w workers in [Recv]
      and main in [Sending files]; the spawn loop, parser creation
      ([sitter.NewParser], [SetLanguage]) and [verifBeforeFile] are local,
      non-blocking and not modelled.  The status updater and the closer ARE
      started by explicit main transitions, in the order of the source:
      send all files; close(fileChan); go status; go closer; collect.
      While [status = GNotStarted] nobody drains statusChan, so workers block
      on [a < w] once w items are buffered.

   2. [readable f] stands for "readFile(f) and parser.ParseCtx(...) both
      succeed".  Both failures execute [continue] after exactly one status
      send, no result and no progress, so they are the same transition
      [step_w_read_fail].  The ghost field [skipped] records those files; no
      guard reads it.

   3. Buffered channels.  A send is enabled iff the buffer is not full, for all
      four channels (guards [length q < n], [length r < n], [p < n], [a < w]).
      PoolFacts proves that for the three capacity-n channels the guard is
      always true in reachable states (pool_sends_never_block); only
      statusChan sends can block.  statusChan and progressChan carry no
      information relevant to the protocol and are modelled by their length.

   4. Closed channels (Go spec, "Receive operator", "Close", "Select
      statements").  A receive from a closed channel always proceeds: it
      yields the buffered values first (ok = true) and, once the buffer is
      empty, the zero value with ok = false.  A select picks uniformly among
      the cases that can proceed.  Hence for the status updater
        - case statusChan with ok=true   is enabled iff sq > 0
        - case progressChan with ok=true is enabled iff pq > 0
        - [return] via statusChan is enabled iff statusChan closed and sq = 0
        - [return] via progressChan is enabled iff progressChan closed, pq = 0
      so the goroutine may return while the OTHER channel still has buffered
      items (e.g. progress never reaches 100%), but never while both have.
      [range resultChan] in main ends iff resultChan is closed and empty.
      Sending on / closing a closed channel panics in Go; the model has no
      such transition guard, instead PoolFacts shows that in reachable states
      nobody is in a sending position on a closed channel
      (inv_closed_exited, inv_fclosed) and each close happens once by
      construction of the program counters.

   5. The closer's three [close] calls are three transitions
      (CWaiting -> CClosedR -> CClosedRS -> CFired); "closed" flags are
      functions of the closer's program counter.  [wg.Wait()] returns iff
      every worker has executed [wg.Done()] (all [WExited]).
      [defer parser.Close()] / [defer tree.Close()] run after [wg.Done()];
      they are local and not modelled.

   6. [Initialize] is not [func main]: after it returns ([Done]) the closer
      may still take steps (its last [close] calls); these are part of the
      model (a terminal state has all goroutines finished).  The status
      updater has returned by then: main waits for it in [Join]
      ([<-statusDone], a channel closed by a deferred call of the updater;
      modelled as the guard [status = GExited]).  Before the repair
      "the progress display stops before the scan returns" there was no such
      wait and the updater kept writing to the terminal after [Done].

   7. The body of the status updater after the select, the merge loop body,
      logging and timing are local computations, fused with the receive.
      In particular [(progress*100)/totalFiles] is only evaluated after a
      successful receive; PoolFacts.pool_no_items_when_no_files shows that
      for n = 0 no item is ever buffered, so the division by zero is
      unreachable.

   8. Merge orders.  [buffered w [] (filter readable files) p] (a reorder
      buffer with w places) is shown to be SUFFICIENT for p to be the merge
      order of a complete run (PoolFacts.pool_orders); it is implied by the
      window condition "the file merged at position i is among the first
      i + w readable files" (pool_orders_window).  Necessity is not proved.
   ====================================================================== *)
