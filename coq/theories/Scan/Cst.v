(* tree-sitter concrete syntax trees as data, and the accessors the builder uses. *)
From CPF Require Export Base.Bytes.
Open Scope bs_scope.

Inductive cst :=
  Cst (ty : bytes) (named missing : bool) (field : option bytes)
      (sb eb : N) (srow scol : N) (kids : list cst).

Definition c_ty (n : cst) := let 'Cst t _ _ _ _ _ _ _ _ := n in t.
Definition c_named (n : cst) := let 'Cst _ b _ _ _ _ _ _ _ := n in b.
Definition c_missing (n : cst) := let 'Cst _ _ b _ _ _ _ _ _ := n in b.
Definition c_field (n : cst) := let 'Cst _ _ _ f _ _ _ _ _ := n in f.
Definition c_sb (n : cst) := let 'Cst _ _ _ _ a _ _ _ _ := n in a.
Definition c_eb (n : cst) := let 'Cst _ _ _ _ _ a _ _ _ := n in a.
Definition c_row (n : cst) := let 'Cst _ _ _ _ _ _ a _ _ := n in a.
Definition c_col (n : cst) := let 'Cst _ _ _ _ _ _ _ a _ := n in a.
Definition c_kids (n : cst) := let 'Cst _ _ _ _ _ _ _ _ k := n in k.

Definition is_ty (t : bytes) (n : cst) : bool := bytes_eqb (c_ty n) t.

(* node.Content(src) = src[StartByte:EndByte] *)
Definition content (src : bytes) (n : cst) : bytes := slice src (c_sb n) (c_eb n).

(* node.Child(i): nil when out of range *)
Definition child (n : cst) (i : nat) : option cst := nth_error (c_kids n) i.

Definition named_kids (n : cst) : list cst := filter c_named (c_kids n).

(* node.ChildByFieldName(f): the first child carrying field name f *)
Definition child_by_field (n : cst) (f : bytes) : option cst :=
  find (fun k => match c_field k with Some g => bytes_eqb g f | None => false end) (c_kids n).

(* every node of the tree, pre-order *)
Fixpoint cst_nodes (n : cst) : list cst :=
  n :: (fix go (ks : list cst) : list cst :=
          match ks with [] => [] | k :: r => cst_nodes k ++ go r end) (c_kids n).

Fixpoint cst_size (n : cst) : nat :=
  S ((fix go (ks : list cst) : nat :=
        match ks with [] => 0 | k :: r => cst_size k + go r end) (c_kids n)).

(* Well-formedness: what the model assumes of tree-sitter, checked on every CST the harness sees.
   - byte range inside the source and ordered;
   - start row = number of '\n' before the start byte;
   - children lie inside the parent, in order. *)
Fixpoint cst_wfb (src : bytes) (n : cst) : bool :=
  let 'Cst _ _ _ _ sb eb row _ kids := n in
  (sb <=? eb)%N && (eb <=? N.of_nat (length src))%N
  && (row =? count_nl (firstn (N.to_nat sb) src))%N
  && (fix go (ks : list cst) (lo : N) : bool :=
        match ks with
        | [] => true
        | k :: r => (lo <=? c_sb k)%N && (c_eb k <=? eb)%N && cst_wfb src k && go r (c_eb k)
        end) kids sb.
