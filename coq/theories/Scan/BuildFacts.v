(* Facts about the builder model: every entity comes from a CST node of the file and carries its
   text and line (C04); the graph is the census of entities merged by identity (C03). *)
From CPF Require Import Base.Bytes Base.BytesFacts Scan.Cst Scan.Build.
From Coq Require Import Lia Permutation.
Open Scope bs_scope.

(* ---------- induction over CSTs ---------- *)
Section CstInd.
  Variable P : cst -> Prop.
  Hypothesis H : forall ty nm ms f sb eb r c kids,
      Forall P kids -> P (Cst ty nm ms f sb eb r c kids).
  Fixpoint cst_ind' (n : cst) : P n :=
    match n with
    | Cst ty nm ms f sb eb r c kids =>
        H ty nm ms f sb eb r c kids
          ((fix go (ks : list cst) : Forall P ks :=
              match ks with
              | [] => Forall_nil P
              | k :: r => Forall_cons k (cst_ind' k) (go r)
              end) kids)
    end.
End CstInd.

(* ---------- every entity is derived from the CST node it was created for ---------- *)
Definition derived (src file : bytes) (c : cst) (e : node) : Prop :=
  n_file e = file /\ n_snippet e = content src c /\ n_line e = (c_row c + 1)%N.

Ltac crush H :=
  repeat match type of H with
  | context [if ?b then _ else _] => destruct b eqn:?
  | context [bind ?r _] => let E := fresh "E" in destruct r eqn:E; cbn [bind] in H
  | context [match ?x with (_, _) => _ end] => destruct x eqn:?
  | Panic _ = Ok _ => discriminate H
  end.

Lemma entities_of_derived src file prev n ns :
  entities_of src file prev n = Ok ns -> Forall (derived src file n) ns.
Proof.
  intro H. unfold entities_of in H. crush H;
    try (injection H as H; subst ns);
    repeat (apply Forall_cons || apply Forall_nil || apply Forall_app; try split);
    try (unfold derived, stmt_entity, with_stmt, mk_node; cbn; auto; fail).
  all: destruct (lookup_binop _) as [[? ?]|];
    repeat (apply Forall_cons || apply Forall_nil); unfold derived; cbn; auto.
Qed.

(* ---------- merging by identity ---------- *)
Definition insert_all (es : list node) (m : list (bytes * node)) : list (bytes * node) :=
  fold_left (fun m e => map_insert (n_idpre e) e m) es m.

Lemma add_nodes_nodes es : forall g, g_nodes (add_nodes es g) = insert_all es (g_nodes g).
Proof. induction es as [|e es IH]; intro g; [reflexivity|]. cbn [add_nodes fold_left insert_all].
  unfold add_nodes, insert_all in IH. rewrite IH. reflexivity. Qed.

Lemma insert_all_app a b m : insert_all (a ++ b) m = insert_all b (insert_all a m).
Proof. unfold insert_all. apply fold_left_app. Qed.

Lemma map_insert_fresh k v m : ~ In k (map fst m) -> map_insert k v m = m ++ [(k, v)].
Proof.
  induction m as [|[k' v'] m IH]; intro Hn; [reflexivity|].
  cbn [map_insert]. destruct (bytes_eqb k k') eqn:E.
  - apply bytes_eqb_true in E. subst. exfalso. apply Hn. left. reflexivity.
  - cbn [app]. f_equal. apply IH. intro Hi. apply Hn. right. exact Hi.
Qed.

Lemma insert_all_fresh es : forall m,
  NoDup (map fst m ++ map n_idpre es) ->
  insert_all es m = m ++ map (fun e => (n_idpre e, e)) es.
Proof.
  induction es as [|e es IH]; intros m Hnd; [now rewrite app_nil_r|].
  cbn [insert_all fold_left map]. fold (insert_all es (map_insert (n_idpre e) e m)).
  assert (Hfresh : ~ In (n_idpre e) (map fst m)).
  { intro Hi. apply NoDup_remove_2 in Hnd. apply Hnd. apply in_or_app. left. exact Hi. }
  rewrite map_insert_fresh by exact Hfresh.
  rewrite IH.
  - rewrite <- app_assoc. reflexivity.
  - rewrite map_app. cbn [map fst]. rewrite <- app_assoc. cbn [app].
    (* NoDup (map fst m ++ k :: ks) from NoDup of the same list *)
    exact Hnd.
Qed.

(* keys of a map built by insertion: the identities seen so far *)
Lemma map_insert_keys k v m x :
  In x (map fst (map_insert k v m)) <-> x = k \/ In x (map fst m).
Proof.
  induction m as [|[k' v'] m IH]; cbn [map_insert map fst In].
  - intuition congruence.
  - destruct (bytes_eqb k k') eqn:E; cbn [map fst In].
    + apply bytes_eqb_true in E. subst k'. intuition congruence.
    + rewrite IH. intuition congruence.
Qed.

(* ---------- visit = census merged by identity ---------- *)
Lemma visit_here_nodes src file prev n ctx g g1 ctx1 :
  visit_here src file prev n ctx g = Ok (g1, ctx1) ->
  exists ns, entities_of src file prev n = Ok ns /\ g_nodes g1 = insert_all ns (g_nodes g).
Proof.
  unfold visit_here. intro H.
  destruct (entities_of src file prev n) as [ns|s] eqn:E; cbn [bind] in H; [|discriminate].
  exists ns. split; [reflexivity|].
  destruct (is_ty "method_invocation" n).
  - injection H as H _. subst g1.
    destruct ctx as [c|]; [destruct ns as [|m [|? ?]]|]; cbn [g_nodes add_edge]; apply add_nodes_nodes.
  - destruct (is_ty "binary_expression" n || is_ty "method_declaration" n);
      injection H as H _; subst g1; apply add_nodes_nodes.
Qed.

Lemma visit_here_total src file prev n ctx g ns :
  entities_of src file prev n = Ok ns -> exists g1 ctx1, visit_here src file prev n ctx g = Ok (g1, ctx1).
Proof.
  intro E. unfold visit_here. rewrite E. cbn [bind].
  destruct (is_ty "method_invocation" n); [eauto|].
  destruct (is_ty "binary_expression" n || is_ty "method_declaration" n); eauto.
Qed.

Theorem visit_census src file : forall n prev ctx g g',
  visit src file prev n ctx g = Ok g' ->
  exists es, census src file prev n = Ok es /\ g_nodes g' = insert_all es (g_nodes g).
Proof.
  induction n as [ty nm ms f sb eb r c kids IHk] using cst_ind'. intros prev ctx g g' H.
  cbn [visit census c_kids] in *.
  destruct (visit_here src file prev (Cst ty nm ms f sb eb r c kids) ctx g) as [[g1 ctx1]|s] eqn:Eh;
    cbn [bind] in H; [|discriminate].
  apply visit_here_nodes in Eh as [ns [Ens Hg1]]. rewrite Ens. cbn [bind].
  assert (Hk : forall pv gA gB,
             (fix go (ks : list cst) (prev : option cst) (g : graph) {struct ks} : result graph :=
                match ks with
                | [] => Ok g
                | k :: r => bind (visit src file prev k ctx1 g) (fun g' => go r (Some k) g')
                end) kids pv gA = Ok gB ->
             exists rest,
               (fix go (ks : list cst) (prev : option cst) {struct ks} : result (list node) :=
                  match ks with
                  | [] => Ok []
                  | k :: r => bind (census src file prev k)
                                (fun a => bind (go r (Some k)) (fun b => Ok (a ++ b)))
                  end) kids pv = Ok rest
               /\ g_nodes gB = insert_all rest (g_nodes gA)).
  { clear H Hg1 Ens. induction kids as [|k ks IHks]; intros pv gA gB Hgo.
    - injection Hgo as Hgo. subst. exists []. split; reflexivity.
    - inversion IHk as [|? ? Pk Pks]; subst.
      destruct (visit src file pv k ctx1 gA) as [gk|s] eqn:Ev; cbn [bind] in Hgo; [|discriminate].
      apply Pk in Ev as [a [Ea Ha]]. rewrite Ea. cbn [bind].
      apply (IHks Pks) in Hgo as [b [Eb Hb]]. rewrite Eb. cbn [bind].
      exists (a ++ b). split; [reflexivity|]. rewrite insert_all_app. rewrite <- Ha. exact Hb. }
  apply Hk in H as [rest [Er Hr]]. rewrite Er. cbn [bind].
  exists (ns ++ rest). split; [reflexivity|]. rewrite insert_all_app, <- Hg1. exact Hr.
Qed.

(* the traversal fails exactly where the census fails (a nil dereference in the Go code) *)
Theorem census_visit_total src file : forall n prev ctx g es,
  census src file prev n = Ok es -> exists g', visit src file prev n ctx g = Ok g'.
Proof.
  induction n as [ty nm ms f sb eb r c kids IHk] using cst_ind'. intros prev ctx g es H.
  cbn [visit census c_kids] in *.
  destruct (entities_of src file prev (Cst ty nm ms f sb eb r c kids)) as [ns|s] eqn:Ens;
    cbn [bind] in H; [|discriminate].
  destruct (visit_here_total src file prev _ ctx g ns Ens) as [g1 [ctx1 Eh]]. rewrite Eh. cbn [bind].
  clear Eh Ens.
  match type of H with bind ?X _ = _ => destruct X as [rest|s] eqn:Er; cbn [bind] in H; [|discriminate] end.
  clear H. revert g1 rest Er. generalize (@None cst).
  induction kids as [|k ks IHks]; intros pv g1 rest Er.
  - eauto.
  - inversion IHk as [|? ? Pk Pks]; subst.
    destruct (census src file pv k) as [a|s] eqn:Ea; cbn [bind] in Er; [|discriminate].
    destruct (Pk pv ctx1 g1 a Ea) as [gk Ev]. rewrite Ev. cbn [bind].
    match type of Er with bind ?X _ = _ => destruct X as [b|s] eqn:Eb; cbn [bind] in Er; [|discriminate] end.
    apply (IHks Pks (Some k) gk b Eb).
Qed.

(* every entity of the census belongs to some node of the tree and is derived from it *)
Theorem census_derived src file : forall n prev es,
  census src file prev n = Ok es ->
  Forall (fun e => exists c, In c (cst_nodes n) /\ derived src file c e) es.
Proof.
  induction n as [ty nm ms f sb eb r c kids IHk] using cst_ind'. intros prev es H.
  cbn [census cst_nodes c_kids] in *.
  destruct (entities_of src file prev (Cst ty nm ms f sb eb r c kids)) as [ns|s] eqn:Ens;
    cbn [bind] in H; [|discriminate].
  match type of H with bind ?X _ = _ => destruct X as [rest|s] eqn:Er; cbn [bind] in H; [|discriminate] end.
  injection H as H. subst es.
  assert (Hk : forall pv rest,
             (fix go (ks : list cst) (prev : option cst) {struct ks} : result (list node) :=
                match ks with
                | [] => Ok []
                | k :: r => bind (census src file prev k)
                              (fun a => bind (go r (Some k)) (fun b => Ok (a ++ b)))
                end) kids pv = Ok rest ->
             Forall (fun e => exists c0,
                       In c0 ((fix go (ks : list cst) : list cst :=
                                 match ks with [] => [] | k :: r => cst_nodes k ++ go r end) kids)
                       /\ derived src file c0 e) rest).
  { clear Er Ens. induction kids as [|k ks IHks]; intros pv rest' Er.
    - injection Er as Er. subst. constructor.
    - inversion IHk as [|? ? Pk Pks]; subst.
      destruct (census src file pv k) as [a|s] eqn:Ea; cbn [bind] in Er; [|discriminate].
      match type of Er with bind ?X _ = _ => destruct X as [b|s] eqn:Eb; cbn [bind] in Er; [|discriminate] end.
      injection Er as Er. subst rest'. apply Forall_app. split.
      + apply Pk in Ea. eapply Forall_impl; [|exact Ea].
        intros e [c0 [Hin Hd]]. exists c0. split; [|exact Hd]. apply in_or_app. left. exact Hin.
      + specialize (IHks Pks (Some k) b Eb). eapply Forall_impl; [|exact IHks].
        intros e [c0 [Hin Hd]]. exists c0. split; [|exact Hd]. apply in_or_app. right. exact Hin. }
  apply Forall_app. split.
  - apply entities_of_derived in Ens. eapply Forall_impl; [|exact Ens].
    intros e He. eexists. split; [left; reflexivity|exact He].
  - apply Hk in Er. eapply Forall_impl; [|exact Er].
    intros e [c0 [Hin Hd]]. exists c0. split; [right; exact Hin|exact Hd].
Qed.

(* ---------- the matching pass only touches the access flag ---------- *)
Definition same_but_access (a b : node) : Prop := a = b \/ a = set_access true b.

Lemma matching_pass_nodes g :
  Forall2 (fun x y => fst x = fst y /\ same_but_access (snd x) (snd y))
          (g_nodes (matching_pass g)) (g_nodes g).
Proof.
  unfold matching_pass. cbn [g_nodes].
  assert (G : forall all l,
             Forall2 (fun x y : bytes * node => fst x = fst y /\ same_but_access (snd x) (snd y))
               (map (fun '(k, m) =>
                       if bytes_eqb (n_type m) "method_declaration" && invoked m all
                       then (k, set_access true m) else (k, m)) l) l).
  { intros all l. induction l as [|[k m] l IH]; cbn [map]; constructor; auto.
    destruct (bytes_eqb (n_type m) "method_declaration" && invoked m all); cbn [fst snd];
      split; auto; [right|left]; reflexivity. }
  apply G.
Qed.

Lemma derived_set_access src file c b e : derived src file c e -> derived src file c (set_access b e).
Proof. unfold derived. destruct e; cbn. auto. Qed.

(* ---------- C04 at the level of a whole file ---------- *)
Theorem build_file_entities path src t g :
  build_file path src t = Ok g ->
  exists es, census src path None t = Ok es
    /\ exists g0, g_nodes g0 = insert_all es []
       /\ Forall2 (fun x y => fst x = fst y /\ same_but_access (snd x) (snd y)) (g_nodes g) (g_nodes g0).
Proof.
  unfold build_file. intro H.
  destruct (visit src path None t None empty_graph) as [g0|s] eqn:Ev; cbn [bind] in H; [|discriminate].
  injection H as H. subst g.
  apply visit_census in Ev as [es [Ec Hn]]. exists es. split; [exact Ec|].
  exists g0. split; [exact Hn|]. apply matching_pass_nodes.
Qed.

(* ---------- well-formed trees: every node's range and row are real ---------- *)
Lemma cst_wfb_nodes src : forall t c,
  cst_wfb src t = true -> In c (cst_nodes t) ->
  (c_sb c <= c_eb c)%N /\ (c_eb c <= N.of_nat (length src))%N
  /\ c_row c = count_nl (firstn (N.to_nat (c_sb c)) src).
Proof.
  induction t as [ty nm ms f sb eb r col kids IHk] using cst_ind'. intros c Hwf Hin.
  cbn [cst_wfb] in Hwf. apply andb_true_iff in Hwf as [Hwf Hkids].
  apply andb_true_iff in Hwf as [Hwf Hrow]. apply andb_true_iff in Hwf as [H1 H2].
  cbn [cst_nodes c_kids] in Hin. destruct Hin as [Hin|Hin].
  - subst c. cbn [c_sb c_eb c_row]. repeat split; [apply N.leb_le, H1|apply N.leb_le, H2|apply N.eqb_eq, Hrow].
  - clear H1 H2 Hrow. revert Hkids Hin. generalize sb as lo.
    induction kids as [|k ks IHks]; intros lo Hkids Hin; [contradiction|].
    inversion IHk as [|? ? Pk Pks]; subst.
    apply andb_true_iff in Hkids as [Hkids Hrest]. apply andb_true_iff in Hkids as [_ Hk].
    apply in_app_or in Hin as [Hin|Hin].
    + apply Pk; assumption.
    + apply (IHks Pks (c_eb k)); assumption.
Qed.

Lemma insert_all_values es : forall m k v,
  In (k, v) (insert_all es m) -> In (k, v) m \/ In v es.
Proof.
  induction es as [|e es IH]; intros m k v Hin; [left; exact Hin|].
  cbn [insert_all fold_left] in Hin. fold (insert_all es (map_insert (n_idpre e) e m)) in Hin.
  apply IH in Hin as [Hin|Hin]; [|right; right; exact Hin].
  assert (G : forall m, In (k, v) (map_insert (n_idpre e) e m) -> In (k, v) m \/ v = e).
  { clear. induction m as [|[k' v'] m IHm]; cbn [map_insert]; intro H.
    - destruct H as [H|[]]. injection H as _ H. right. auto.
    - destruct (bytes_eqb (n_idpre e) k'); destruct H as [H|H].
      + injection H as _ H. right. auto.
      + left. right. exact H.
      + left. left. exact H.
      + apply IHm in H as [H|H]; [left; right; exact H|right; exact H]. }
  apply G in Hin as [Hin|Hin]; [left; exact Hin|right; left; symmetry; exact Hin].
Qed.

Lemma Forall2_in_l {A B} (R : A -> B -> Prop) l1 l2 x :
  Forall2 R l1 l2 -> In x l1 -> exists y, In y l2 /\ R x y.
Proof. induction 1 as [|a b l1 l2 Hab H IH]; intro Hin; [contradiction|].
  destruct Hin as [Hin|Hin]; [subst; exists b; split; [left; reflexivity|exact Hab]|].
  destruct (IH Hin) as [y [Hy Hr]]. exists y. split; [right; exact Hy|exact Hr]. Qed.

(* C04, model level: whatever entity a scan of (path, src) yields, its file is the scanned path and
   its snippet is the text of the file that starts on its line. *)
Theorem build_file_location path src t g k e :
  cst_wfb src t = true -> build_file path src t = Ok g -> In (k, e) (g_nodes g) ->
  n_file e = path
  /\ exists pre post, src = pre ++ n_snippet e ++ post /\ n_line e = (count_nl pre + 1)%N.
Proof.
  intros Hwf Hb Hin.
  apply build_file_entities in Hb as [es [Ec [g0 [Hg0 HF]]]].
  destruct (Forall2_in_l _ _ _ _ HF Hin) as [[k0 e0] [Hin0 [_ Hsame]]]. cbn [snd] in Hsame.
  rewrite Hg0 in Hin0. apply insert_all_values in Hin0 as [[]|Hin0].
  apply census_derived in Ec. rewrite Forall_forall in Ec.
  destruct (Ec e0 Hin0) as [c [Hc Hd]].
  assert (Hd' : derived src path c e).
  { destruct Hsame as [-> | ->]; [exact Hd|apply derived_set_access; exact Hd]. }
  destruct Hd' as [Hf [Hs Hl]]. split; [exact Hf|].
  destruct (cst_wfb_nodes src t c Hwf Hc) as [H1 [H2 H3]].
  exists (firstn (N.to_nat (c_sb c)) src), (skipn (N.to_nat (c_eb c)) src).
  rewrite Hs, Hl, H3. unfold content. split; [apply slice_split; assumption|reflexivity].
Qed.


(* ---------- kinds: one entity per occurrence, of the kind its CST type stands for ---------- *)
Lemma entities_of_kinds src file prev n ns :
  entities_of src file prev n = Ok ns -> List.map n_type ns = kinds_of src n.
Proof.
  intro H. unfold entities_of in H. unfold kinds_of.
  repeat match type of H with
  | context [if bytes_eqb ?a ?b then _ else _] => destruct (bytes_eqb a b) eqn:?
  | context [if bytes_eqb ?a ?b || bytes_eqb ?c ?d then _ else _] => destruct (bytes_eqb a b || bytes_eqb c d) eqn:?
  end;
  crush H; try (injection H as H; subst ns); try reflexivity.
  match goal with
  | E : deref _ (child_by_field n "operator") = Ok ?o |- _ =>
      destruct (child_by_field n "operator") as [o'|]; cbn [deref] in E; [injection E as E; subst o'|discriminate E]
  end.
  rewrite map_app. destruct (lookup_binop _) as [[? ?]|]; reflexivity.
Qed.

(* a projection of the census is the flat_map of its per-node specification *)
Lemma census_flat_map {A} (f : node -> A) (spec : cst -> list A) src file :
  (forall prev n ns, entities_of src file prev n = Ok ns -> List.map f ns = spec n) ->
  forall n prev es, census src file prev n = Ok es ->
  List.map f es = flat_map spec (cst_nodes n).
Proof.
  intro Hspec.
  induction n as [ty nm ms fl sb eb r c kids IHk] using cst_ind'. intros prev es H.
  cbn [census cst_nodes c_kids flat_map] in *.
  destruct (entities_of src file prev (Cst ty nm ms fl sb eb r c kids)) as [ns|s] eqn:Ens;
    cbn [bind] in H; [|discriminate].
  match type of H with bind ?X _ = _ => destruct X as [rest|s] eqn:Er; cbn [bind] in H; [|discriminate] end.
  injection H as H. subst es. rewrite map_app. f_equal; [eapply Hspec; exact Ens|].
  clear Ens. revert rest Er. generalize (@None cst).
  induction kids as [|k ks IHks]; intros pv rest Er.
  - injection Er as Er. subst. reflexivity.
  - inversion IHk as [|? ? Pk Pks]; subst.
    destruct (census src file pv k) as [a|s] eqn:Ea; cbn [bind] in Er; [|discriminate].
    match type of Er with bind ?X _ = _ => destruct X as [b|s] eqn:Eb; cbn [bind] in Er; [|discriminate] end.
    injection Er as Er. subst rest. rewrite map_app, flat_map_app. f_equal.
    + eapply Pk. exact Ea.
    + eapply IHks; [exact Pks|exact Eb].
Qed.

Theorem census_kinds src file n prev es :
  census src file prev n = Ok es -> List.map n_type es = flat_map (kinds_of src) (cst_nodes n).
Proof. apply census_flat_map. intros p m ns. apply entities_of_kinds. Qed.

(* ---------- totality: the only failures are the unchecked dereferences ---------- *)
Definition is_ok {A} (r : result A) : Prop := exists a, r = Ok a.

Lemma fold_left_ok {A X} (f : result A -> X -> result A) (l : list X) :
  (forall acc x, In x l -> is_ok acc -> is_ok (f acc x)) ->
  forall acc, is_ok acc -> is_ok (fold_left f l acc).
Proof.
  induction l as [|x l IH]; intros Hf acc Hacc; [exact Hacc|].
  cbn [fold_left]. apply IH.
  - intros a y Hy. apply Hf. right. exact Hy.
  - apply Hf; [left; reflexivity|exact Hacc].
Qed.

Lemma extract_method_name_ok src n file :
  node_shape_okb n = true -> is_ok (extract_method_name src n file).
Proof.
  intro Hs. unfold extract_method_name.
  destruct (is_ty "method_declaration" n) eqn:Emd; [cbn [bind];
    match goal with |- is_ok (let '(_, _) := ?x in _) => destruct x end; eexists; reflexivity|].
  destruct (is_ty "method_invocation" n) eqn:Emi; [|cbn [bind]; eexists; reflexivity].
  match goal with |- is_ok (bind (fold_left ?f ?l ?a) _) => assert (Hfold : is_ok (fold_left f l a)) end.
  { apply fold_left_ok; [|eexists; reflexivity].
    intros acc ch _ [[nm ps] ->]. cbn [bind].
    unfold node_shape_okb in Hs. unfold is_ty in Emi.
    assert (Hty : bytes_eqb (c_ty n) "method_invocation" = true) by exact Emi.
    apply bytes_eqb_true in Hty. rewrite Hty in Hs. cbn in Hs.
    destruct (child_by_field n "argument_list") as [args|]; [|eexists; reflexivity].
    match goal with |- is_ok (bind (fold_left ?f ?l ?a) _) => assert (Hin : is_ok (fold_left f l a)) end.
    { apply fold_left_ok; [|eexists; reflexivity].
      intros acc2 a Ha [ps0 ->]. cbn [bind].
      rewrite forallb_forall in Hs. specialize (Hs a Ha). cbn beta in Hs.
      destruct (child a 0) eqn:Ec0; [eexists; reflexivity|].
      unfold child in Ec0. cbn [nth_error] in Ec0. rewrite Ec0 in Hs. discriminate Hs. }
    destruct Hin as [ps' ->]. eexists; reflexivity. }
  destruct Hfold as [[nm ps] ->]. cbn [bind]. eexists; reflexivity.
Qed.

Lemma entities_of_ok src file prev n :
  node_shape_okb n = true -> is_ok (entities_of src file prev n).
Proof.
  intro Hs. pose proof (extract_method_name_ok src n file Hs) as [[mn mid] Hm].
  unfold entities_of. rewrite Hm. unfold node_shape_okb in Hs.
  repeat match goal with
  | |- context [if bytes_eqb (c_ty n) ?b then _ else _] => destruct (bytes_eqb (c_ty n) b) eqn:?
  end; cbn [orb bind] in *;
  repeat match goal with
  | |- context [match ?x with (_, _) => _ end] => destruct x
  end;
  try (eexists; reflexivity).
  all: repeat match type of Hs with
       | context [match ?x with Some _ => _ | None => _ end] => destruct x; try discriminate Hs
       end; cbn [deref bind]; try (eexists; reflexivity).
  all: try (destruct (has_prefix _ _); eexists; reflexivity).
  all: destruct (bytes_eqb (c_ty n) "field_declaration"); eexists; reflexivity.
Qed.

Theorem census_ok src file : forall n prev,
  forallb node_shape_okb (cst_nodes n) = true -> is_ok (census src file prev n).
Proof.
  induction n as [ty nm ms fl sb eb r c kids IHk] using cst_ind'. intros prev Hs.
  cbn [census cst_nodes c_kids forallb] in *. apply andb_true_iff in Hs as [Hn Hks].
  destruct (entities_of_ok src file prev _ Hn) as [ns ->]. cbn [bind].
  assert (Hr : forall pv, is_ok ((fix go (ks : list cst) (prev : option cst) {struct ks} : result (list node) :=
                match ks with
                | [] => Ok []
                | k :: r => bind (census src file prev k)
                              (fun a => bind (go r (Some k)) (fun b => Ok (a ++ b)))
                end) kids pv)).
  { clear Hn. induction kids as [|k ks IHks]; intro pv; [eexists; reflexivity|].
    inversion IHk as [|? ? Pk Pks]; subst.
    rewrite forallb_app in Hks. apply andb_true_iff in Hks as [Hk Hrest].
    destruct (Pk pv Hk) as [a ->]. cbn [bind].
    destruct (IHks Pks Hrest (Some k)) as [b ->]. cbn [bind]. eexists; reflexivity. }
  destruct (Hr None) as [rest ->]. cbn [bind]. eexists; reflexivity.
Qed.

(* C09, crash part, model level *)
Theorem build_file_total path src t :
  shape_okb t = true -> exists g, build_file path src t = Ok g.
Proof.
  intro Hs. destruct (census_ok src path t None Hs) as [es He].
  destruct (census_visit_total src path t None None empty_graph es He) as [g Hg].
  unfold build_file. rewrite Hg. cbn [bind]. eexists; reflexivity.
Qed.

(* ---------- C09, cost part: the work count is quadratically bounded ---------- *)
Lemma cst_nodes_length t : length (cst_nodes t) = cst_size t.
Proof.
  induction t as [ty nm ms fl sb eb r c kids IHk] using cst_ind'.
  cbn [cst_nodes cst_size c_kids length]. f_equal.
  induction kids as [|k ks IHks]; [reflexivity|].
  inversion IHk as [|? ? Pk Pks]; subst. rewrite app_length, Pk, (IHks Pks). reflexivity.
Qed.

Lemma kids_span_sum src eb kids : forall lo,
  (fix go (ks : list cst) (lo : N) : bool :=
     match ks with
     | [] => true
     | k :: r => (lo <=? c_sb k)%N && (c_eb k <=? eb)%N && cst_wfb src k && go r (c_eb k)
     end) kids lo = true ->
  (lo <= eb)%N -> list_sum (List.map span kids) <= N.to_nat (eb - lo).
Proof.
  induction kids as [|k ks IH]; intros lo H Hle; [cbn; lia|].
  apply andb_true_iff in H as [H Hr]. apply andb_true_iff in H as [H Hk].
  apply andb_true_iff in H as [H1 H2]. apply N.leb_le in H1, H2.
  assert (Hkw : (c_sb k <= c_eb k)%N).
  { destruct k. cbn [cst_wfb] in Hk. cbn [c_sb c_eb].
    repeat (apply andb_true_iff in Hk as [Hk _]). apply N.leb_le. exact Hk. }
  change (list_sum (List.map span (k :: ks))) with (span k + list_sum (List.map span ks)).
  specialize (IH (c_eb k) Hr H2). unfold span at 1. lia.
Qed.

Lemma cst_wfb_node_work src : forall t c,
  cst_wfb src t = true -> In c (cst_nodes t) -> node_work c <= 8 * length src.
Proof.
  induction t as [ty nm ms f sb eb r col kids IHk] using cst_ind'. intros c Hwf Hin.
  pose proof Hwf as Hwf0.
  cbn [cst_wfb] in Hwf. apply andb_true_iff in Hwf as [Hwf Hkids].
  apply andb_true_iff in Hwf as [Hwf Hrow]. apply andb_true_iff in Hwf as [H1 H2].
  apply N.leb_le in H1, H2.
  cbn [cst_nodes c_kids] in Hin. destruct Hin as [Hin|Hin].
  - subst c. unfold node_work. cbn [c_kids]. pose proof (kids_span_sum src eb kids sb Hkids H1) as Hs.
    unfold span at 1. cbn [c_sb c_eb]. lia.
  - clear H1 H2 Hrow Hwf0. revert Hkids Hin. generalize sb as lo.
    induction kids as [|k ks IHks]; intros lo Hkids Hin; [contradiction|].
    inversion IHk as [|? ? Pk Pks]; subst.
    apply andb_true_iff in Hkids as [Hkids Hrest]. apply andb_true_iff in Hkids as [_ Hk].
    apply in_app_or in Hin as [Hin|Hin].
    + apply Pk; assumption.
    + apply (IHks Pks (c_eb k)); assumption.
Qed.

Lemma list_sum_bound {A} (f : A -> nat) (b : nat) (l : list A) :
  (forall x, In x l -> f x <= b) -> list_sum (List.map f l) <= b * length l.
Proof. induction l as [|x l IH]; intro H; [cbn; lia|].
  change (list_sum (List.map f (x :: l))) with (f x + list_sum (List.map f l)). cbn [length].
  pose proof (H x (or_introl eq_refl)). specialize (IH (fun y Hy => H y (or_intror Hy))). lia. Qed.

Lemma map_insert_length k v m : length (map_insert k v m) <= S (length m).
Proof. induction m as [|[k' v'] m IH]; cbn [map_insert length]; [lia|].
  destruct (bytes_eqb k k'); cbn [length]; lia. Qed.

Lemma insert_all_length es : forall m, length (insert_all es m) <= length m + length es.
Proof. induction es as [|e es IH]; intro m; [cbn; lia|]. cbn [insert_all fold_left length].
  fold (insert_all es (map_insert (n_idpre e) e m)). specialize (IH (map_insert (n_idpre e) e m)).
  pose proof (map_insert_length (n_idpre e) e m). lia. Qed.

Lemma kinds_of_length src n : length (kinds_of src n) <= 2.
Proof.
  unfold kinds_of.
  repeat match goal with
  | |- context [if ?b then _ else _] => destruct b
  end; cbn [length]; try lia.
  destruct (child_by_field n "operator"); cbn [length]; [|lia].
  rewrite app_length. destruct (lookup_binop _) as [[? ?]|]; cbn [length]; lia.
Qed.

Lemma flat_map_length_bound {A B} (f : A -> list B) (b : nat) (l : list A) :
  (forall x, length (f x) <= b) -> length (flat_map f l) <= b * length l.
Proof. intro H. induction l as [|x l IH]; [cbn; lia|]. cbn [flat_map length]. rewrite app_length.
  specialize (H x). lia. Qed.

Lemma filter_length_le {A} (p : A -> bool) (l : list A) : length (filter p l) <= length l.
Proof. induction l as [|x l IH]; [cbn; lia|]. cbn [filter]. destruct (p x); cbn [length]; lia. Qed.

Lemma Forall2_len {A B} (R : A -> B -> Prop) l1 l2 : Forall2 R l1 l2 -> length l1 = length l2.
Proof. induction 1; cbn [length]; congruence. Qed.

Theorem build_file_work path src t g :
  cst_wfb src t = true -> build_file path src t = Ok g ->
  work t g <= 8 * (cst_size t + length src) * (cst_size t + length src).
Proof.
  intros Hwf Hb.
  assert (Hsz : 1 <= cst_size t) by (destruct t; cbn [cst_size]; lia).
  assert (Hw : list_sum (List.map node_work (cst_nodes t)) <= 8 * length src * cst_size t).
  { rewrite <- cst_nodes_length. apply list_sum_bound. intros c Hc. eapply cst_wfb_node_work; eassumption. }
  assert (Hn : length (g_nodes g) <= 2 * cst_size t).
  { apply build_file_entities in Hb as [es [Ec [g0 [Hg0 HF]]]].
    rewrite (Forall2_len _ _ _ HF), Hg0.
    pose proof (insert_all_length es []) as H1. cbn [length] in H1.
    apply census_kinds in Ec. apply (f_equal (@length _)) in Ec. rewrite map_length in Ec.
    pose proof (flat_map_length_bound (kinds_of src) 2 (cst_nodes t) (kinds_of_length src)) as H2.
    rewrite cst_nodes_length in H2. lia. }
  unfold work.
  pose proof (filter_length_le (fun '(_, m) => bytes_eqb (n_type m) "method_declaration") (g_nodes g)) as Hf.
  set (D := length (filter _ (g_nodes g))) in *. set (M := length (g_nodes g)) in *.
  set (S := cst_size t) in *. set (L := length src) in *.
  assert (D * M <= 4 * S * S) by nia. nia.
Qed.
