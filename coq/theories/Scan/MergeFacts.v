(* Order independence of the merge (C07) and per-file isolation (C08). *)
From CPF Require Import Base.Bytes Base.BytesFacts Scan.Merge.
From Coq Require Import Lia Permutation.
Open Scope bs_scope.

Section MergeFacts.
  Variables A E : Type.
  Notation lgraph := (lgraph A E).

  Definition insert_all (es : list (bytes * A)) (m : list (bytes * A)) : list (bytes * A) :=
    fold_left (fun m kv => gm_insert (fst kv) (snd kv) m) es m.

  Lemma gm_insert_fresh k (v : A) m : ~ In k (List.map fst m) -> gm_insert k v m = m ++ [(k, v)].
  Proof.
    induction m as [|[k' v'] m IH]; intro Hn; [reflexivity|].
    cbn [gm_insert]. destruct (bytes_eqb k k') eqn:Ek.
    - apply bytes_eqb_true in Ek. subst. exfalso. apply Hn. left. reflexivity.
    - cbn [app]. f_equal. apply IH. intro Hi. apply Hn. right. exact Hi.
  Qed.

  Lemma insert_all_fresh es : forall m,
    NoDup (List.map fst m ++ List.map fst es) -> insert_all es m = m ++ es.
  Proof.
    induction es as [|[k v] es IH]; intros m Hnd; [now rewrite app_nil_r|].
    cbn [insert_all fold_left fst snd List.map] in *. fold (insert_all es (gm_insert k v m)).
    assert (Hf : ~ In k (List.map fst m)).
    { intro Hi. apply NoDup_remove_2 in Hnd. apply Hnd. apply in_or_app. left. exact Hi. }
    rewrite gm_insert_fresh by exact Hf. rewrite IH.
    - rewrite <- app_assoc. reflexivity.
    - rewrite map_app. cbn [List.map fst]. rewrite <- app_assoc. exact Hnd.
  Qed.

  Lemma NoDup_app_l {X} (a b : list X) : NoDup (a ++ b) -> NoDup a.
  Proof. induction a as [|x a IH]; intro H; [constructor|]. inversion H; subst. constructor.
    - intro Hi. match goal with Hn : ~ In x (a ++ b) |- _ => apply Hn end. apply in_or_app. left. exact Hi.
    - apply IH. assumption. Qed.

  (* all identities of all per-file graphs pairwise distinct *)
  Definition keys_distinct (ls : list lgraph) : Prop := NoDup (concat (List.map (@keys A E) ls)).

  Lemma collect_from (ls : list lgraph) : forall g : lgraph,
    NoDup (List.map fst (fst g) ++ concat (List.map (@keys A E) ls)) ->
    fold_left merge1 ls g = (fst g ++ concat (List.map fst ls), snd g ++ concat (List.map snd ls)).
  Proof.
    induction ls as [|l ls IH]; intros g Hnd; cbn [fold_left List.map concat].
    - rewrite !app_nil_r. destruct g; reflexivity.
    - rewrite IH.
      + unfold merge1. cbn [fst snd]. fold (insert_all (fst l) (fst g)).
        rewrite insert_all_fresh.
        * rewrite <- !app_assoc. reflexivity.
        * cbn [List.map concat] in Hnd. unfold keys in Hnd. rewrite app_assoc in Hnd.
          apply NoDup_app_l in Hnd. exact Hnd.
      + unfold merge1. cbn [fst snd]. fold (insert_all (fst l) (fst g)).
        cbn [List.map concat] in Hnd. unfold keys in Hnd at 1.
        rewrite insert_all_fresh.
        * rewrite map_app, <- app_assoc. exact Hnd.
        * rewrite app_assoc in Hnd. apply NoDup_app_l in Hnd. exact Hnd.
  Qed.

  (* with distinct identities the project graph is the plain union of the per-file graphs *)
  Theorem collect_union (ls : list lgraph) :
    keys_distinct ls ->
    collect ls = (concat (List.map fst ls), concat (List.map snd ls)).
  Proof. intro H. unfold collect. rewrite collect_from; [reflexivity|exact H]. Qed.

  Lemma Permutation_concat {X} (l l' : list (list X)) : Permutation l l' -> Permutation (concat l) (concat l').
  Proof.
    induction 1 as [|x l l' _ IH|x y l|l l' l'' _ IH1 _ IH2]; cbn [concat].
    - constructor.
    - apply Permutation_app_head. exact IH.
    - rewrite !app_assoc. apply Permutation_app_tail. apply Permutation_app_comm.
    - eapply Permutation_trans; eassumption.
  Qed.

  Lemma keys_distinct_perm (ls ls' : list lgraph) : Permutation ls ls' -> keys_distinct ls -> keys_distinct ls'.
  Proof.
    intros Hp Hd. unfold keys_distinct in *. eapply Permutation_NoDup; [|exact Hd].
    apply Permutation_concat. apply Permutation_map. exact Hp.
  Qed.

  (* C07: any two arrival orders of the same per-file graphs give the same entities and links *)
  Theorem collect_order_independent (ls ls' : list lgraph) :
    keys_distinct ls -> Permutation ls ls' ->
    Permutation (fst (collect ls)) (fst (collect ls')) /\ Permutation (snd (collect ls)) (snd (collect ls')).
  Proof.
    intros Hd Hp. rewrite (collect_union ls Hd), (collect_union ls' (keys_distinct_perm ls ls' Hp Hd)).
    cbn [fst snd]. split; apply Permutation_concat; apply Permutation_map; exact Hp.
  Qed.

  (* C08: what the project graph holds for one file is exactly that file's own graph, whatever the
     other files are and wherever it arrives *)
  Theorem collect_isolation (ls1 ls2 : list lgraph) (l : lgraph) :
    keys_distinct (ls1 ++ l :: ls2) ->
    exists others_n others_e,
      Permutation (fst (collect (ls1 ++ l :: ls2))) (fst l ++ others_n)
      /\ Permutation (snd (collect (ls1 ++ l :: ls2))) (snd l ++ others_e)
      /\ others_n = concat (List.map fst (ls1 ++ ls2)) /\ others_e = concat (List.map snd (ls1 ++ ls2)).
  Proof.
    intro Hd. rewrite (collect_union _ Hd). cbn [fst snd].
    exists (concat (List.map fst (ls1 ++ ls2))), (concat (List.map snd (ls1 ++ ls2))).
    repeat split; rewrite !map_app, !concat_app; cbn [List.map concat];
      rewrite app_assoc; rewrite (app_assoc _ (concat (List.map _ ls1))); apply Permutation_app_tail;
      apply Permutation_app_comm.
  Qed.
End MergeFacts.

(* Without distinct identities the arrival order decides which entity survives (the defect D20
   repaired by scoping binary-expression identities to the file): *)
Example collect_order_matters :
  let a : lgraph bytes unit := ([("k", "from file A")], []) in
  let b : lgraph bytes unit := ([("k", "from file B")], []) in
  fst (collect [a; b]) <> fst (collect [b; a]).
Proof. vm_compute. discriminate. Qed.

(* ---------- file discovery ---------- *)
Section CstIndFs.
  Variable P : fsnode -> Prop.
  Hypothesis Hf : forall n, P (FFile n).
  Hypothesis Hd : forall n r kids, Forall P kids -> P (FDir n r kids).
  Fixpoint fsnode_ind' (n : fsnode) : P n :=
    match n with
    | FFile nm => Hf nm
    | FDir nm r kids => Hd nm r kids ((fix go (ks : list fsnode) : Forall P ks :=
                           match ks with [] => Forall_nil P | k :: rest => Forall_cons k (fsnode_ind' k) (go rest) end) kids)
    end.
End CstIndFs.

(* every regular file below readable directories, whatever its extension *)
Fixpoint files_in (dir : bytes) (n : fsnode) : list bytes :=
  match n with
  | FFile name => [path_join dir name]
  | FDir name readable kids =>
      if readable then
        (fix go (ks : list fsnode) : list bytes :=
           match ks with [] => [] | k :: r => files_in (path_join dir name) k ++ go r end) kids
      else []
  end.

(* getFiles yields exactly the regular files with extension .java reachable through readable
   directories, at any depth, in walk order; nothing else *)
Theorem walk_java_only : forall n dir,
  walk_in dir n = filter (fun p => bytes_eqb (path_ext p) ".java") (files_in dir n).
Proof.
  induction n as [nm|nm r kids IH] using fsnode_ind'; intro dir.
  - cbn [walk_in files_in filter]. destruct (bytes_eqb _ _); reflexivity.
  - cbn [walk_in files_in]. destruct r; [|reflexivity].
    induction kids as [|k ks IHks]; [reflexivity|].
    inversion IH as [|? ? Pk Pks]; subst. rewrite filter_app, <- Pk, <- (IHks Pks). reflexivity.
Qed.
