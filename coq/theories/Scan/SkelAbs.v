(* SkelAbs.v -- the abstraction from configurations of [pool_program] under the generic semantics
   (Scan/SkelSem.v) to states of the hand-written transition system (Scan/Pool.v).  Which configurations are
   identified follows Pool.v's modelling decisions: goroutine creation, local calls and hooks are silent;
   wg.Wait() is fused with the first close; a worker's exit from its range loop is fused with wg.Done();
   the two error exits of a worker are one transition.  Executable; checked by exploration (see SkelSem.v). *)
From CPF Require Import Base.Bytes Base.Skel Scan.SkelSem Scan.Pool.
From Coq Require Import List Arith Bool.
Import ListNotations.
Open Scope bs_scope.

Fixpoint leading_ks (k : list kitem) : nat :=
  match k with KS _ :: r => S (leading_ks r) | _ => 0 end.

Definition main_pc (files : list nat) (g : gor) : mstate :=
  if negb (g_live g) then Done else
  match g_k g with
  | [] => Done
  | KS SRet :: _ => Done
  | KS (SRecv _) :: _ => Join
  | KS (SRange _ _) :: _ => Collect
  | KRange _ _ :: _ => Collect
  | KS (SHook _) :: KRange _ _ :: _ => Collect
  | KS (SGo g') :: _ => if bytes_eqb g' "g1" then StartStatus else if bytes_eqb g' "g2" then StartCloser else Sending files
  | KS (SMake ch _) :: _ => if bytes_eqb ch "c4" then StartStatus else Sending files
  | KS (SClose _) :: _ => CloseFiles
  | KS (SSend _) :: KEach rest _ :: _ => Sending (g_cur g :: rest)
  | KEach rest _ :: _ => Sending rest
  | _ => Sending files
  end.

Definition worker_pc (g : gor) : wstate :=
  if negb (g_live g) then WExited else
  match g_k g with
  | [] => WExited
  | KS SWgDone :: _ => WExited
  | KS (SRange _ _) :: _ => Recv
  | KRange _ _ :: _ => Recv
  | k =>
      let f := g_cur g in
      match leading_ks k with
      | 9 | 8 => Status1 f
      | 7 | 6 => Read f
      | 5 => Status2 f
      | 4 => Build f
      | 3 => Status3 f
      | 2 => SendResult f
      | 1 => SendProgress f
      | _ => Recv
      end
  end.

Definition find_gor (name : bytes) (gs : list gor) : option gor :=
  find (fun g => bytes_eqb (g_name g) name) gs.

Definition status_pc (gs : list gor) : gstate :=
  match find_gor "g1" gs with
  | None => GNotStarted
  | Some g => if g_live g then GRunning else GExited
  end.

Definition closer_pc (gs : list gor) : cstate :=
  match find_gor "g2" gs with
  | None => CNotStarted
  | Some g =>
      if negb (g_live g) then CFired else
      match g_k g with
      | KS SWgWait :: _ => CWaiting
      | KS (SClose ch) :: _ =>
          if bytes_eqb ch "c1" then CWaiting else if bytes_eqb ch "c2" then CClosedR else CClosedRS
      | _ => CFired
      end
  end.

Definition buf_of (s : sk) (ch : bytes) : list nat :=
  match slookup ch (s_chans s) with Some c => c_buf c | None => [] end.
Definition closed_of (s : sk) (ch : bytes) : bool :=
  match slookup ch (s_chans s) with Some c => c_closed c | None => false end.

Definition abs (files : list nat) (w : nat) (s : sk) : state :=
  let workers := map worker_pc (filter (fun g => bytes_eqb (g_name g) "g0") (s_gors s)) in
  St (match s_gors s with g :: _ => main_pc files g | [] => Done end)
     (buf_of s "c0") (closed_of s "c0")
     (workers ++ repeat Recv (w - length workers))
     (length (buf_of s "c2")) (length (buf_of s "c3")) (buf_of s "c1")
     (status_pc (s_gors s)) (closer_pc (s_gors s))
     (s_merged s) (s_skipped s).

(* the flags Pool.v derives from the closer's program counter are the channels' own flags *)
Definition flags_agree (s : sk) : bool :=
  let a := closer_pc (s_gors s) in
  Bool.eqb (rclosed_c a) (closed_of s "c1") && Bool.eqb (sclosed_c a) (closed_of s "c2")
  && Bool.eqb (pclosed_c a) (closed_of s "c3").
