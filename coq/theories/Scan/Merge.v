(* The collection loop of graph.Initialize: per-file graphs merged into the project graph in
   arrival order (construct.go: `for localGraph := range resultChan`), and the file discovery
   (getFiles).  Generic in the entity payload.  Definitions only. *)
From CPF Require Export Base.Bytes.
Open Scope bs_scope.

Section Merge.
  Variables A E : Type.
  Definition lgraph : Type := (list (bytes * A) * list E)%type.

  (* g.Nodes[id] = n *)
  Fixpoint gm_insert (k : bytes) (v : A) (m : list (bytes * A)) : list (bytes * A) :=
    match m with
    | [] => [(k, v)]
    | (k', v') :: r => if bytes_eqb k k' then (k, v) :: r else (k', v') :: gm_insert k v r
    end.

  Definition merge1 (g l : lgraph) : lgraph :=
    (fold_left (fun m kv => gm_insert (fst kv) (snd kv) m) (fst l) (fst g), snd g ++ snd l).

  Definition collect (ls : list lgraph) : lgraph := fold_left merge1 ls ([], []).

  Definition keys (l : lgraph) : list bytes := List.map fst (fst l).
End Merge.
Arguments gm_insert {A}. Arguments merge1 {A E}. Arguments collect {A E}. Arguments keys {A E}.

(* ---------- file discovery ---------- *)
(* a directory tree as filepath.Walk sees it (Lstat: symbolic links are plain entries) *)
Inductive fsnode :=
| FFile (name : bytes)
| FDir (name : bytes) (readable : bool) (kids : list fsnode).   (* kids in lexical order *)

Definition path_join (dir name : bytes) : bytes := dir ++ "/" ++ name.

(* entries below a readable directory [dir]; an unreadable sub-directory hides only itself *)
Fixpoint walk_in (dir : bytes) (n : fsnode) : list bytes :=
  match n with
  | FFile name => let p := path_join dir name in
                  if bytes_eqb (path_ext p) ".java" then [p] else []
  | FDir name readable kids =>
      if readable then
        (fix go (ks : list fsnode) : list bytes :=
           match ks with [] => [] | k :: r => walk_in (path_join dir name) k ++ go r end) kids
      else []
  end.

(* getFiles(root): an unreadable (or missing) root is an error; root may be a single file *)
Definition get_files (root : bytes) (n : fsnode) : option (list bytes) :=
  match n with
  | FFile _ => Some (if bytes_eqb (path_ext root) ".java" then [root] else [])
  | FDir _ readable kids =>
      if readable then Some (flat_map (walk_in root) kids) else None
  end.
