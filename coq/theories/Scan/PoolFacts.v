(* PoolFacts.v -- proofs about the worker-pool transition system of Pool.v

   Everything is for arbitrary [files] (n = length files, n = 0 allowed),
   arbitrary w and arbitrary [readable]; w >= 1 is assumed only where stated.

     enabled_steps_iff            In s' (enabled_steps s) <-> step s s'
     pool_inv_init / pool_inv_step / pool_invariant      (1) the invariant
     pool_conservation, pool_exactly_one_place           (1) conservation
     pool_capacities, pool_sends_never_block             (1) capacities
     pool_no_items_when_no_files                         n = 0: no division by 0
     pool_progress, pool_terminal_shape                  (2) deadlock freedom
     pool_variant, pool_run_length_bound,
     pool_no_infinite_run, pool_step_wf,
     pool_terminates, pool_can_finish                    (3) termination
     pool_delivers, pool_delivers_exactly_once           (4) delivery
     pool_orders_small, pool_orders, pool_orders_window  (5) merge orders
     ex_run_1, ex_run_2, ex_run_explicit,
     ex_workers_block_on_status                          examples (n=3, w=2)

     pool_orders_exact, pool_merge_orders_iff            (5) converse: exactly
                                                         the [buffered] orders

     pool_quiescent, pool_quiescent_forever,
     pool_terminal_all_finished                          (6) main returns ([Done])
                                                         only after the status
                                                         updater has returned *)

From Coq Require Import List Arith Lia Bool Permutation.
From CPF Require Import Scan.Pool.
Import ListNotations.

Set Implicit Arguments.

(* ---------------------------------------------------------------------- *)
(* List helpers                                                            *)
(* ---------------------------------------------------------------------- *)

Lemma splits_spec : forall (A : Type) (l l1 l2 : list A) (x : A),
  In (l1, x, l2) (splits l) <-> l = l1 ++ x :: l2.
Proof.
  intros A l. induction l as [|a t IH]; intros l1 l2 x; simpl.
  - split; [intros [] | intros Heq; destruct l1; discriminate].
  - split.
    + intros [Heq | Hin].
      * inversion Heq; subst. reflexivity.
      * apply in_map_iff in Hin. destruct Hin as [[[l1' y] l2'] [Heq Hin]].
        inversion Heq; subst. apply IH in Hin. subst. reflexivity.
    + intros Heq. destruct l1 as [|b l1]; simpl in Heq; inversion Heq; subst.
      * left. reflexivity.
      * right. apply in_map_iff. exists (l1, x, l2). split; [reflexivity|].
        apply IH. reflexivity.
Qed.

Lemma list_sum_mid : forall (A : Type) (g : A -> nat) l1 x l2,
  list_sum (map g (l1 ++ x :: l2)) = list_sum (map g l1) + g x + list_sum (map g l2).
Proof.
  intros A g l1 x l2. rewrite map_app, list_sum_app. simpl. lia.
Qed.

Lemma flat_map_mid : forall (A B : Type) (g : A -> list B) l1 x l2,
  flat_map g (l1 ++ x :: l2) = flat_map g l1 ++ g x ++ flat_map g l2.
Proof.
  intros A B g l1 x l2. rewrite flat_map_app. reflexivity.
Qed.

Lemma forallb_mid : forall (A : Type) (g : A -> bool) l1 x l2,
  forallb g (l1 ++ x :: l2) = forallb g l1 && (g x && forallb g l2).
Proof.
  intros A g l1 x l2. rewrite forallb_app. reflexivity.
Qed.

Lemma existsb_mid : forall (A : Type) (g : A -> bool) l1 x l2,
  existsb g (l1 ++ x :: l2) = existsb g l1 || (g x || existsb g l2).
Proof.
  intros A g l1 x l2. rewrite existsb_app. reflexivity.
Qed.

(* a list of workers is all-exited, or we can point at one that is not *)
Lemma exited_or_split : forall ws : list wstate,
  forallb is_exited ws = true \/
  exists l1 x l2, ws = l1 ++ x :: l2 /\ is_exited x = false.
Proof.
  induction ws as [|a t IH].
  - left. reflexivity.
  - destruct (is_exited a) eqn:Ha.
    + destruct IH as [IH | [l1 [x [l2 [Heq Hx]]]]].
      * left. simpl. rewrite Ha, IH. reflexivity.
      * right. exists (a :: l1), x, l2. subst. auto.
    + right. exists [], a, t. auto.
Qed.

(* ---------------------------------------------------------------------- *)
(* enabled_steps is exactly step                                           *)
(* ---------------------------------------------------------------------- *)

Section Facts.

  Variable n : nat.
  Variable w : nat.
  Variable readable : file -> bool.

  Notation step := (step n w readable).
  Notation star := (star n w readable).
  Notation nsteps := (nsteps n w readable).
  Notation terminal := (terminal n w readable).
  Notation enabled_steps := (enabled_steps n w readable).

  Lemma enabled_steps_sound : forall s s', In s' (enabled_steps s) -> step s s'.
  Proof.
    intros s s' Hin. unfold Pool.enabled_steps in Hin.
    rewrite !in_app_iff in Hin.
    destruct Hin as [Hin | [Hin | [Hin | Hin]]].
    - destruct s as [m q fc ws a p r st co mg sk]. simpl in Hin.
      destruct m as [[|f rest]| | | | | |]; simpl in Hin.
      + destruct Hin as [<-|[]]. constructor.
      + destruct (length q <? n) eqn:Hlt; simpl in Hin; [|contradiction].
        destruct Hin as [<-|[]]. constructor. apply Nat.ltb_lt; assumption.
      + destruct Hin as [<-|[]]. constructor.
      + destruct Hin as [<-|[]]. constructor.
      + destruct Hin as [<-|[]]. constructor.
      + destruct r as [|f r].
        * destruct (rclosed_c co) eqn:Hc; simpl in Hin; [|contradiction].
          destruct Hin as [<-|[]]. constructor. assumption.
        * destruct Hin as [<-|[]]. constructor.
      + destruct st; simpl in Hin; try contradiction.
        destruct Hin as [<-|[]]. constructor.
      + contradiction.
    - unfold worker_steps in Hin. apply in_flat_map in Hin.
      destruct Hin as [[[l1 x] l2] [Hsp Hin]].
      apply splits_spec in Hsp.
      destruct s as [m q fc ws a p r st co mg sk]. simpl in Hsp. subst ws.
      simpl in Hin.
      destruct x; simpl in Hin.
      + destruct q as [|f q].
        * destruct fc; simpl in Hin; [|contradiction].
          destruct Hin as [<-|[]]. constructor.
        * destruct Hin as [<-|[]]. constructor.
      + destruct (a <? w) eqn:Hlt; simpl in Hin; [|contradiction].
        destruct Hin as [<-|[]]. constructor. apply Nat.ltb_lt; assumption.
      + destruct (readable f) eqn:Hr; simpl in Hin;
          destruct Hin as [<-|[]]; constructor; assumption.
      + destruct (a <? w) eqn:Hlt; simpl in Hin; [|contradiction].
        destruct Hin as [<-|[]]. constructor. apply Nat.ltb_lt; assumption.
      + destruct Hin as [<-|[]]. constructor.
      + destruct (a <? w) eqn:Hlt; simpl in Hin; [|contradiction].
        destruct Hin as [<-|[]]. constructor. apply Nat.ltb_lt; assumption.
      + destruct (length r <? n) eqn:Hlt; simpl in Hin; [|contradiction].
        destruct Hin as [<-|[]]. constructor. apply Nat.ltb_lt; assumption.
      + destruct (p <? n) eqn:Hlt; simpl in Hin; [|contradiction].
        destruct Hin as [<-|[]]. constructor. apply Nat.ltb_lt; assumption.
      + contradiction.
    - destruct s as [m q fc ws a p r st co mg sk]. simpl in Hin.
      destruct st; simpl in Hin; try contradiction.
      rewrite !in_app_iff in Hin.
      destruct Hin as [Hin | [Hin | [Hin | Hin]]].
      + destruct a; simpl in Hin; [contradiction|].
        destruct Hin as [<-|[]]. constructor.
      + destruct p; simpl in Hin; [contradiction|].
        destruct Hin as [<-|[]]. constructor.
      + destruct a; simpl in Hin; [|contradiction].
        destruct (sclosed_c co) eqn:Hc; simpl in Hin; [|contradiction].
        destruct Hin as [<-|[]]. constructor. assumption.
      + destruct p; simpl in Hin; [|contradiction].
        destruct (pclosed_c co) eqn:Hc; simpl in Hin; [|contradiction].
        destruct Hin as [<-|[]]. constructor. assumption.
    - destruct s as [m q fc ws a p r st co mg sk]. simpl in Hin.
      destruct co; simpl in Hin; try contradiction.
      + destruct (forallb is_exited ws) eqn:Hall; simpl in Hin; [|contradiction].
        destruct Hin as [<-|[]]. constructor. assumption.
      + destruct Hin as [<-|[]]. constructor.
      + destruct Hin as [<-|[]]. constructor.
  Qed.

  Ltac ltb_true :=
    repeat match goal with
      | H : ?a < ?b |- _ =>
          let H' := fresh "Hltb" in
          assert (H' : (a <? b) = true) by (apply Nat.ltb_lt; exact H);
          clear H
      end.

  Lemma enabled_steps_complete : forall s s', step s s' -> In s' (enabled_steps s).
  Proof.
    intros s s' Hstep. unfold Pool.enabled_steps. rewrite !in_app_iff.
    destruct Hstep; ltb_true.
    1-8: left; simpl;
      repeat match goal with H : _ = true |- _ => rewrite H end;
      simpl; auto.
    1-10: right; left; unfold worker_steps; apply in_flat_map;
      match goal with
      | |- context [wk (St _ _ _ (?l1 ++ ?x :: ?l2) _ _ _ _ _ _ _)] =>
          exists (l1, x, l2)
      end;
      (split; [apply splits_spec; reflexivity|]); simpl;
      repeat match goal with H : _ = _ |- _ => rewrite H end;
      simpl; auto.
    1-4: right; right; left; simpl;
      repeat match goal with H : _ = true |- _ => rewrite H end; simpl;
      rewrite ?in_app_iff; simpl; auto 10.
    - right; right; right; simpl;
      repeat match goal with H : _ = true |- _ => rewrite H end; simpl; auto.
    - right; right; right; simpl; auto.
    - right; right; right; simpl; auto.
  Qed.

  Theorem enabled_steps_iff : forall s s', In s' (enabled_steps s) <-> step s s'.
  Proof.
    intros s s'. split; [apply enabled_steps_sound | apply enabled_steps_complete].
  Qed.

  (* ---------------------------------------------------------------------- *)
  (* Termination: the measure decreases on EVERY step (no invariant needed)  *)
  (* ---------------------------------------------------------------------- *)

  Lemma step_measure : forall s s', step s s' -> measure s' < measure s.
  Proof.
    intros s s' Hstep. destruct Hstep; unfold measure, fweight; simpl;
      rewrite ?list_sum_mid, ?app_length; simpl; try lia;
      try (destruct st; simpl; lia); destruct co; simpl; lia.
  Qed.

  Lemma nsteps_measure : forall k s s', nsteps k s s' -> k + measure s' <= measure s.
  Proof.
    intros k s s' Hns. induction Hns as [s | k s1 s2 s3 Hstep Hns IH].
    - lia.
    - apply step_measure in Hstep. lia.
  Qed.

  Lemma no_infinite_run : forall tr : nat -> state,
    (forall i, step (tr i) (tr (S i))) -> False.
  Proof.
    intros tr Hrun.
    assert (Hb : forall i, i + measure (tr i) <= measure (tr 0)).
    { induction i as [|i IH]; [lia|].
      specialize (Hrun i). apply step_measure in Hrun. lia. }
    specialize (Hb (S (measure (tr 0)))). lia.
  Qed.

  Lemma step_wf : forall s, Acc (fun s2 s1 => step s1 s2) s.
  Proof.
    intros s. remember (measure s) as k eqn:Hk. revert s Hk.
    induction k as [k IH] using lt_wf_ind. intros s Hk.
    constructor. intros s' Hstep. apply step_measure in Hstep.
    eapply IH; [|reflexivity]. lia.
  Qed.

  Lemma terminal_dec : forall s, terminal s \/ exists s', step s s'.
  Proof.
    intros s. destruct (enabled_steps s) as [|s' l] eqn:He.
    - left. intros s' Hstep. apply enabled_steps_complete in Hstep.
      rewrite He in Hstep. contradiction.
    - right. exists s'. apply enabled_steps_sound. rewrite He. left. reflexivity.
  Qed.

  Lemma star_trans : forall s1 s2 s3, star s1 s2 -> star s2 s3 -> star s1 s3.
  Proof.
    intros s1 s2 s3 H12. induction H12 as [s | a b c Hstep H12 IH]; intros H23.
    - assumption.
    - eapply star_step; [eassumption|]. apply IH. assumption.
  Qed.

  Lemma nsteps_star : forall k s s', nsteps k s s' -> star s s'.
  Proof.
    intros k s s' Hns. induction Hns as [s | k s1 s2 s3 Hstep Hns IH].
    - apply star_refl.
    - eapply star_step; eassumption.
  Qed.

  Lemma nsteps_snoc : forall k s1 s2 s3, nsteps k s1 s2 -> step s2 s3 -> nsteps (S k) s1 s3.
  Proof.
    intros k s1 s2 s3 Hns. induction Hns as [s | k a b c Hstep Hns IH]; intros H23.
    - eapply nsteps_S; [eassumption | apply nsteps_O].
    - eapply nsteps_S; [eassumption|]. apply IH. assumption.
  Qed.

  Lemma reaches_terminal : forall s, exists s', star s s' /\ terminal s'.
  Proof.
    intros s. induction (step_wf s) as [s _ IH].
    destruct (terminal_dec s) as [Ht | [s1 Hs1]].
    - exists s. split; [apply star_refl | assumption].
    - destruct (IH s1 Hs1) as [s' [Hstar Ht]].
      exists s'. split; [eapply star_step; eassumption | assumption].
  Qed.

  (* Maximal runs as partial sequences. *)
  Definition is_run (tr : nat -> option state) : Prop :=
    forall i, match tr i, tr (S i) with
              | Some s1, Some s2 => step s1 s2       (* consecutive states: a step *)
              | Some s1, None => terminal s1         (* may only stop when stuck *)
              | None, Some _ => False                (* no holes *)
              | None, None => True
              end.

  Lemma run_prefix : forall tr s0, is_run tr -> tr 0 = Some s0 ->
    forall k, (exists s, tr k = Some s /\ nsteps k s0 s) \/
              (exists j s, j < k /\ tr j = Some s /\ tr (S j) = None /\ nsteps j s0 s).
  Proof.
    intros tr s0 Hrun H0. induction k as [|k IH].
    - left. exists s0. split; [assumption | apply nsteps_O].
    - destruct IH as [[s [Hk Hns]] | [j [s [Hj [Hs [Hnone Hns]]]]]].
      + destruct (tr (S k)) as [s'|] eqn:Hsk.
        * left. exists s'. split; [reflexivity|].
          pose proof (Hrun k) as Hr. rewrite Hk, Hsk in Hr.
          eapply nsteps_snoc; eassumption.
        * right. exists k, s. auto.
      + right. exists j, s. auto.
  Qed.

  (* ---------------------------------------------------------------------- *)
  (* The invariant                                                           *)
  (* ---------------------------------------------------------------------- *)

  Variable files : list file.
  Hypothesis Hn : n = length files.

  Record pool_inv (s : state) : Prop := {
    (* the worker list keeps its length *)
    inv_wk_len : length (wk s) = w;
    (* statusChan never holds more than its capacity *)
    inv_sq : sq s <= w;
    (* conservation: every file is in exactly one place *)
    inv_cons : Permutation files (all_files s);
    (* only readable files get past [Read] *)
    inv_readable :
      Forall (fun f => readable f = true) (held_r (wk s) ++ rq s ++ merged s);
    inv_skipped : Forall (fun f => readable f = false) (skipped s);
    (* flags follow main's program counter *)
    inv_fclosed : fclosed s = past_close (main s);
    inv_status : status s = GNotStarted <-> past_status (main s) = false;
    inv_closer : closer s = CNotStarted <-> past_closer (main s) = false;
    (* once resultChan is closed (hence also for the two later closes) all
       workers have exited: nobody can send on a closed channel *)
    inv_closed_exited : rclosed s = true -> forallb is_exited (wk s) = true;
    (* a worker only exits after fileChan is closed and drained *)
    inv_exited_fq : existsb is_exited (wk s) = true -> fq s = [] /\ fclosed s = true;
    (* progress items: at most one per result already sent *)
    inv_pq : pq s + count_sp (wk s) <= length (rq s) + length (merged s);
    (* main leaves the collection loop only on closed-and-empty (and
       resultChan stays closed and empty while main waits in [Join]) *)
    inv_done : main s = Done -> rclosed s = true /\ rq s = [];
    inv_join : main s = Join -> rclosed s = true /\ rq s = [];
    (* no status item without a file *)
    inv_nofiles : files = [] -> sq s = 0;
    (* the status updater only returns after statusChan was closed *)
    inv_gexited : status s = GExited -> sclosed s = true;
    (* main returns only after the status updater has returned *)
    inv_quiet : main s = Done -> status s = GExited
  }.

  Ltac norm :=
    unfold all_files, held, held_r, count_sp, rclosed, sclosed, pclosed in *;
    simpl in *;
    rewrite ?flat_map_mid, ?list_sum_mid, ?forallb_mid, ?existsb_mid, ?app_length in *;
    simpl in *.

  Ltac perm_solve H :=
    apply (Permutation_count_occ Nat.eq_dec);
    let x := fresh "x" in
    intro x;
    generalize ((proj1 (Permutation_count_occ Nat.eq_dec _ _) H) x);
    repeat (rewrite count_occ_app || (progress simpl));
    repeat match goal with
      | |- context [Nat.eq_dec ?a ?b] => destruct (Nat.eq_dec a b)
      end;
    lia.

  Lemma held_repeat_Recv : forall k, held (repeat Recv k) = [].
  Proof. induction k as [|k IH]; simpl; auto. Qed.
  Lemma held_r_repeat_Recv : forall k, held_r (repeat Recv k) = [].
  Proof. induction k as [|k IH]; simpl; auto. Qed.
  Lemma existsb_repeat_Recv : forall k, existsb is_exited (repeat Recv k) = false.
  Proof. induction k as [|k IH]; simpl; auto. Qed.
  Lemma count_sp_repeat_Recv : forall k, count_sp (repeat Recv k) = 0.
  Proof. induction k as [|k IH]; simpl; auto. Qed.

  Lemma inv_init : pool_inv (init files w).
  Proof.
    constructor; unfold all_files, rclosed, sclosed; simpl;
      rewrite ?held_repeat_Recv, ?held_r_repeat_Recv, ?existsb_repeat_Recv,
        ?count_sp_repeat_Recv, ?repeat_length; simpl; rewrite ?app_nil_r;
      try tauto; try lia; try discriminate; auto.
  Qed.

  Lemma inv_step : forall s s', step s s' -> pool_inv s -> pool_inv s'.
  Proof.
    intros s s' Hstep Hinv.
    destruct Hinv as [Hlen Hsq Hcons Hrd Hsk Hfc Hst Hco Hce Hef Hpq Hdn Hjn Hnf Hge Hqt].
    constructor.
    - destruct Hstep; norm; lia.
    - destruct Hstep; norm; lia.
    - destruct Hstep; norm; try assumption; perm_solve Hcons.
    - destruct Hstep; norm; try assumption.
      all: repeat rewrite ?Forall_app, ?Forall_cons_iff in *; intuition (auto using Forall_nil).
    - destruct Hstep; norm; try assumption.
      constructor; assumption.
    - destruct Hstep; norm; try assumption; try reflexivity.
    - destruct Hstep; norm; try assumption; intuition congruence.
    - destruct Hstep; norm; try assumption; intuition congruence.
    - destruct Hstep; norm; try assumption;
        intros Hc; try discriminate;
        try (apply Hce in Hc; rewrite ?andb_false_r in Hc; try discriminate); auto.
    - destruct Hstep; norm; try assumption;
        intros Hx; try (split; reflexivity);
        try (apply Hef in Hx; destruct Hx as [Hx1 Hx2]; split; congruence).
    - destruct Hstep; norm; lia.
    - (* inv_done *)
      destruct Hstep; norm; try assumption;
        intros Hx; try discriminate;
        try (destruct (Hjn eq_refl) as [Hd1 Hd2]; split; assumption);
        try (destruct (Hdn Hx) as [Hd1 Hd2];
             try (apply Hce in Hd1; rewrite ?andb_false_r in Hd1; discriminate);
             split; auto; fail);
        split; auto.
    - (* inv_join *)
      destruct Hstep; norm; try assumption;
        intros Hx; try discriminate;
        try (destruct (Hjn Hx) as [Hd1 Hd2];
             try (apply Hce in Hd1; rewrite ?andb_false_r in Hd1; discriminate);
             split; auto; fail);
        split; auto.
    - destruct Hstep; norm; try assumption;
        intros Hf; try (specialize (Hnf Hf); lia);
        rewrite Hf in Hcons; apply Permutation_length in Hcons;
        repeat (rewrite app_length in Hcons || (progress simpl in Hcons)); lia.
    - destruct Hstep; norm; try assumption;
        try (destruct co; simpl in *; intuition congruence); intuition congruence.
    - (* inv_quiet *)
      destruct Hstep; norm; try assumption;
        intros Hx; try discriminate; try reflexivity;
        try (apply Hqt; assumption);
        specialize (Hqt Hx); discriminate.
  Qed.

  Lemma inv_star : forall s s', star s s' -> pool_inv s -> pool_inv s'.
  Proof.
    intros s s' Hstar. induction Hstar as [s | s1 s2 s3 Hstep Hstar IH]; intros Hinv.
    - exact Hinv.
    - apply IH. eapply inv_step; eassumption.
  Qed.

  (* ---------------------------------------------------------------------- *)
  (* Consequences of the invariant: capacities, never-blocking sends         *)
  (* ---------------------------------------------------------------------- *)

  Lemma inv_lengths : forall s, pool_inv s ->
    length (rest_of (main s)) + length (fq s) + length (held (wk s))
    + length (rq s) + length (merged s) + length (skipped s) = n.
  Proof.
    intros s Hinv. destruct Hinv as [_ _ Hcons _ _ _ _ _ _ _ _ _ _ _ _ _].
    apply Permutation_length in Hcons. unfold all_files in Hcons.
    rewrite !app_length in Hcons. lia.
  Qed.

  Lemma inv_capacities : forall s, pool_inv s ->
    length (fq s) <= n /\ length (rq s) <= n /\ pq s <= n /\ sq s <= w.
  Proof.
    intros s Hinv. pose proof (inv_lengths Hinv) as Hl.
    pose proof (inv_pq Hinv) as Hp. pose proof (inv_sq Hinv) as Hs. lia.
  Qed.

  Lemma inv_send_file_ok : forall s f rest, pool_inv s ->
    main s = Sending (f :: rest) -> length (fq s) < n /\ fclosed s = false.
  Proof.
    intros s f rest Hinv Hm. pose proof (inv_lengths Hinv) as Hl.
    pose proof (inv_fclosed Hinv) as Hf.
    rewrite Hm in *. simpl in *. split; [lia | assumption].
  Qed.

  Lemma inv_send_result_ok : forall s l1 f l2, pool_inv s ->
    wk s = l1 ++ SendResult f :: l2 -> length (rq s) < n /\ rclosed s = false.
  Proof.
    intros s l1 f l2 Hinv Hw. pose proof (inv_lengths Hinv) as Hl.
    pose proof (inv_closed_exited Hinv) as Hce.
    rewrite Hw in *. unfold held in Hl. rewrite flat_map_mid, !app_length in Hl.
    simpl in Hl. split; [lia|].
    destruct (rclosed s); [|reflexivity].
    specialize (Hce eq_refl). rewrite forallb_mid in Hce. simpl in Hce.
    rewrite andb_false_r in Hce. discriminate.
  Qed.

  Lemma inv_send_progress_ok : forall s l1 f l2, pool_inv s ->
    wk s = l1 ++ SendProgress f :: l2 -> pq s < n /\ pclosed s = false.
  Proof.
    intros s l1 f l2 Hinv Hw. pose proof (inv_lengths Hinv) as Hl.
    pose proof (inv_pq Hinv) as Hp. pose proof (inv_closed_exited Hinv) as Hce.
    rewrite Hw in *. unfold count_sp in Hp. rewrite list_sum_mid in Hp.
    simpl in Hp. split; [lia|].
    unfold pclosed. unfold rclosed in Hce.
    destruct (closer s); simpl in *; try reflexivity.
    specialize (Hce eq_refl). rewrite forallb_mid in Hce. simpl in Hce.
    rewrite andb_false_r in Hce. discriminate.
  Qed.

  Lemma inv_send_status_ok : forall s l1 x l2, pool_inv s ->
    wk s = l1 ++ x :: l2 -> is_exited x = false -> sclosed s = false.
  Proof.
    intros s l1 x l2 Hinv Hw Hx. pose proof (inv_closed_exited Hinv) as Hce.
    unfold sclosed. unfold rclosed in Hce. rewrite Hw in Hce.
    destruct (closer s); simpl in *; try reflexivity;
      specialize (Hce eq_refl); rewrite forallb_mid, Hx in Hce;
      rewrite andb_false_r in Hce; discriminate.
  Qed.

  Lemma inv_no_items_when_no_files : forall s, pool_inv s ->
    files = [] -> sq s = 0 /\ pq s = 0.
  Proof.
    intros s Hinv Hf. pose proof (inv_capacities Hinv) as Hc.
    pose proof (inv_nofiles Hinv Hf) as Hs.
    rewrite Hn, Hf in Hc. simpl in Hc. lia.
  Qed.

  (* ---------------------------------------------------------------------- *)
  (* Deadlock freedom                                                        *)
  (* ---------------------------------------------------------------------- *)

  Lemma inv_progress : forall s, pool_inv s -> main s <> Done -> exists s', step s s'.
  Proof.
    intros s Hinv Hnd.
    pose proof (inv_lengths Hinv) as Hl. pose proof (inv_pq Hinv) as Hp.
    destruct Hinv as [Hlen Hsq Hcons Hrd Hsk Hfc Hst Hco Hce Hef _ Hdn Hjn Hnf Hge Hqt].
    destruct s as [m q fc ws a p r st co mg sk].
    unfold rclosed, sclosed in *. simpl in *.
    destruct m as [[|f rest]| | | | | |]; simpl in *.
    - eexists. apply step_m_sent_all.
    - eexists. apply step_m_send. lia.
    - eexists. apply step_m_close.
    - eexists. apply step_m_start_status.
    - eexists. apply step_m_start_closer.
    - destruct r as [|f r].
      2:{ eexists. apply step_m_collect. }
      destruct (rclosed_c co) eqn:Hrc.
      { eexists. apply step_m_done. assumption. }
      assert (Hcw : co = CWaiting).
      { destruct co; simpl in Hrc; try discriminate; try reflexivity.
        exfalso. destruct Hco as [Hco1 _]. specialize (Hco1 eq_refl). discriminate. }
      subst co.
      assert (Hrun : st = GRunning).
      { destruct st; try reflexivity.
        - destruct Hst as [Hst1 _]. specialize (Hst1 eq_refl). discriminate.
        - specialize (Hge eq_refl). discriminate. }
      subst st.
      destruct (exited_or_split ws) as [Hall | [l1 [x [l2 [Heq Hx]]]]].
      { eexists. apply step_c_wait. assumption. }
      destruct a as [|a].
      2:{ eexists. apply step_g_status. }
      subst ws. rewrite app_length in Hlen. simpl in Hlen.
      unfold held in Hl. rewrite flat_map_mid, !app_length in Hl.
      unfold count_sp in Hp. rewrite list_sum_mid in Hp.
      destruct x; simpl in *.
      + destruct q as [|f q].
        * subst fc. eexists. apply step_w_exit.
        * eexists. apply step_w_recv.
      + eexists. apply step_w_status1. lia.
      + destruct (readable f) eqn:Hr.
        * eexists. apply step_w_read_ok. assumption.
        * eexists. apply step_w_read_fail. assumption.
      + eexists. apply step_w_status2. lia.
      + eexists. apply step_w_build.
      + eexists. apply step_w_status3. lia.
      + eexists. apply step_w_send_result. simpl. lia.
      + eexists. apply step_w_send_progress. lia.
      + discriminate.
    - (* Join: main waits for the status updater.  resultChan is closed, so
         the closer is past [wg.Wait()]: it performs its remaining closes, and
         once statusChan is closed the updater drains it and returns *)
      destruct (Hjn eq_refl) as [Hrc Hrq].
      destruct st.
      + exfalso. destruct Hst as [Hst1 _]. specialize (Hst1 eq_refl). discriminate.
      + destruct co; simpl in Hrc; try discriminate.
        * eexists. apply step_c_close_status.
        * eexists. apply step_c_close_progress.
        * destruct a as [|a].
          -- eexists. apply step_g_exit_status. reflexivity.
          -- eexists. apply step_g_status.
      + eexists. apply step_m_join.
    - exfalso. apply Hnd. reflexivity.
  Qed.

  (* shape of a stuck state: everybody has finished *)
  Lemma inv_terminal : forall s, pool_inv s -> terminal s ->
    main s = Done /\ closer s = CFired /\ status s = GExited /\
    forallb is_exited (wk s) = true /\ rq s = [].
  Proof.
    intros s Hinv Hterm.
    assert (Hd : main s = Done).
    { destruct (main s) eqn:Hm; try reflexivity;
        (destruct (@inv_progress s Hinv) as [s' Hs'];
         [rewrite Hm; discriminate | exfalso; eapply Hterm; eassumption]). }
    pose proof (inv_done Hinv Hd) as [Hrc Hrq].
    pose proof (inv_closed_exited Hinv Hrc) as Hall.
    pose proof (inv_quiet Hinv Hd) as Hg.
    destruct s as [m q fc ws a p r st co mg sk].
    unfold rclosed in *. simpl in *. subst m. simpl in *.
    assert (Hco : co = CFired).
    { destruct co; simpl in Hrc; try discriminate; try reflexivity;
        exfalso; eapply Hterm; constructor. }
    subst co.
    auto.
  Qed.

  (* ---------------------------------------------------------------------- *)
  (* Delivery                                                                *)
  (* ---------------------------------------------------------------------- *)

  Lemma held_all_exited : forall ws, forallb is_exited ws = true -> held ws = [].
  Proof.
    induction ws as [|x t IH]; simpl; intros Hall; [reflexivity|].
    apply andb_true_iff in Hall. destruct Hall as [Hx Ht].
    destruct x; simpl in *; try discriminate. apply IH. assumption.
  Qed.

  Lemma filter_all : forall (g : file -> bool) l,
    Forall (fun f => g f = true) l -> filter g l = l.
  Proof.
    intros g l Hall. induction Hall as [|x l Hx Hall IH]; simpl; [reflexivity|].
    rewrite Hx, IH. reflexivity.
  Qed.

  Lemma filter_none : forall (g : file -> bool) l,
    Forall (fun f => g f = false) l -> filter g l = [].
  Proof.
    intros g l Hall. induction Hall as [|x l Hx Hall IH]; simpl; [reflexivity|].
    rewrite Hx, IH. reflexivity.
  Qed.

  Lemma Permutation_filter' : forall (g : file -> bool) l l',
    Permutation l l' -> Permutation (filter g l) (filter g l').
  Proof.
    intros g l l' Hp. induction Hp as [| x l l' Hp IH | x y l | l l' l'' Hp1 IH1 Hp2 IH2]; simpl.
    - constructor.
    - destruct (g x); [constructor|]; assumption.
    - destruct (g x), (g y); try apply Permutation_refl. constructor.
    - eapply Permutation_trans; eassumption.
  Qed.

  Lemma inv_delivers : forall s, 1 <= w -> pool_inv s -> main s = Done ->
    Permutation (merged s) (filter readable files) /\
    Permutation files (merged s ++ skipped s).
  Proof.
    intros s Hw Hinv Hd.
    pose proof (inv_done Hinv Hd) as [Hrc Hrq].
    pose proof (inv_closed_exited Hinv Hrc) as Hall.
    pose proof (inv_wk_len Hinv) as Hlen.
    assert (Hex : existsb is_exited (wk s) = true).
    { destruct (wk s) as [|x t]; simpl in *; [lia|].
      apply andb_true_iff in Hall. destruct Hall as [Hx _]. rewrite Hx. reflexivity. }
    pose proof (inv_exited_fq Hinv Hex) as [Hfq _].
    pose proof (inv_cons Hinv) as Hcons.
    pose proof (inv_readable Hinv) as Hrd.
    pose proof (inv_skipped Hinv) as Hsk.
    unfold all_files in Hcons.
    rewrite Hd, Hfq, Hrq, (held_all_exited _ Hall) in Hcons. simpl in Hcons.
    split; [|assumption].
    apply Permutation_filter' with (g := readable) in Hcons.
    rewrite filter_app in Hcons.
    rewrite !Forall_app in Hrd. destruct Hrd as [_ [_ Hmg]].
    rewrite (filter_all _ Hmg), (filter_none _ Hsk), app_nil_r in Hcons.
    apply Permutation_sym. assumption.
  Qed.

  Lemma maximal_run_finite : forall tr s0, pool_inv s0 -> is_run tr -> tr 0 = Some s0 ->
    exists k s, k <= measure s0 /\ tr k = Some s /\ tr (S k) = None /\
                nsteps k s0 s /\ terminal s /\ main s = Done.
  Proof.
    intros tr s0 Hinv Hrun H0.
    destruct (run_prefix Hrun H0 (S (measure s0)))
      as [[s [Hk Hns]] | [j [s [Hj [Hs [Hnone Hns]]]]]].
    - apply nsteps_measure in Hns. lia.
    - exists j, s. pose proof (Hrun j) as Hr. rewrite Hs, Hnone in Hr.
      assert (Hinv' : pool_inv s).
      { eapply inv_star; [eapply nsteps_star; eassumption | assumption]. }
      destruct (inv_terminal Hinv' Hr) as [Hd _].
      repeat split; try assumption. lia.
  Qed.

End Facts.

(* ====================================================================== *)
(* Main theorems, stated for [reachable files w readable]                  *)
(* (n = length files; w and readable arbitrary)                            *)
(* ====================================================================== *)

Section Main.

  Variable files : list file.
  Variable w : nat.
  Variable readable : file -> bool.

  Notation n := (length files).
  Notation step := (step n w readable).
  Notation star := (star n w readable).
  Notation nsteps := (nsteps n w readable).
  Notation terminal := (terminal n w readable).
  Notation reachable := (reachable files w readable).
  Notation pool_inv := (pool_inv w readable files).

  (* 1. the invariant: holds initially, preserved by every step *)
  Theorem pool_inv_init : pool_inv (init files w).
  Proof. eapply inv_init. reflexivity. Qed.

  Theorem pool_inv_step : forall s s', step s s' -> pool_inv s -> pool_inv s'.
  Proof. intros s s'. apply inv_step. reflexivity. Qed.

  Theorem pool_invariant : forall s, reachable s -> pool_inv s.
  Proof.
    intros s Hr. eapply inv_star; [reflexivity | exact Hr | apply pool_inv_init].
  Qed.

  (* conservation, spelled out *)
  Theorem pool_conservation : forall s, reachable s ->
    Permutation files
      (rest_of (main s) ++ fq s ++ held (wk s) ++ rq s ++ merged s ++ skipped s).
  Proof. intros s Hr. exact (inv_cons (pool_invariant Hr)). Qed.

  (* with distinct files: every file is in exactly one place *)
  Theorem pool_exactly_one_place : forall s, NoDup files -> reachable s ->
    NoDup (rest_of (main s) ++ fq s ++ held (wk s) ++ rq s ++ merged s ++ skipped s)
    /\ forall f, In f files <->
         In f (rest_of (main s) ++ fq s ++ held (wk s) ++ rq s ++ merged s ++ skipped s).
  Proof.
    intros s Hnd Hr. pose proof (pool_conservation Hr) as Hp. split.
    - eapply Permutation_NoDup; eassumption.
    - intros f. split; intros Hin.
      + eapply Permutation_in; eassumption.
      + eapply Permutation_in; [apply Permutation_sym|]; eassumption.
  Qed.

  (* queue lengths never exceed the channel capacities *)
  Theorem pool_capacities : forall s, reachable s ->
    length (fq s) <= n /\ length (rq s) <= n /\ pq s <= n /\ sq s <= w.
  Proof.
    intros s Hr. eapply inv_capacities; [reflexivity | apply pool_invariant; exact Hr].
  Qed.

  (* the sends on the capacity-n channels are never blocked, and nobody is ever
     in a sending position on a closed channel *)
  Theorem pool_sends_never_block : forall s, reachable s ->
    (forall f rest, main s = Sending (f :: rest) ->
       length (fq s) < n /\ fclosed s = false) /\
    (forall l1 f l2, wk s = l1 ++ SendResult f :: l2 ->
       length (rq s) < n /\ rclosed s = false) /\
    (forall l1 f l2, wk s = l1 ++ SendProgress f :: l2 ->
       pq s < n /\ pclosed s = false) /\
    (forall l1 x l2, wk s = l1 ++ x :: l2 -> is_exited x = false ->
       sclosed s = false).
  Proof.
    intros s Hr. pose proof (pool_invariant Hr) as Hinv.
    split; [|split; [|split]].
    - intros f rest Hm. eapply inv_send_file_ok; [reflexivity | |]; eassumption.
    - intros l1 f l2 Hw. eapply inv_send_result_ok; [reflexivity | |]; eassumption.
    - intros l1 f l2 Hw. eapply inv_send_progress_ok; [reflexivity | |]; eassumption.
    - intros l1 x l2 Hw Hx. eapply inv_send_status_ok; eassumption.
  Qed.

  (* n = 0: the status updater never receives an item, so the
     [(progress*100)/totalFiles] after the select is never evaluated *)
  Theorem pool_no_items_when_no_files : forall s, reachable s ->
    files = [] -> sq s = 0 /\ pq s = 0.
  Proof.
    intros s Hr Hf. eapply inv_no_items_when_no_files;
      [reflexivity | apply pool_invariant; exact Hr | exact Hf].
  Qed.

  (* 2. deadlock freedom *)
  Theorem pool_progress : forall s, reachable s -> main s <> Done ->
    exists s', step s s'.
  Proof.
    intros s Hr Hnd. eapply inv_progress;
      [reflexivity | apply pool_invariant; exact Hr | exact Hnd].
  Qed.

  (* a reachable state without successor: all goroutines have finished *)
  Theorem pool_terminal_shape : forall s, reachable s -> terminal s ->
    main s = Done /\ closer s = CFired /\ status s = GExited /\
    forallb is_exited (wk s) = true /\ rq s = [].
  Proof.
    intros s Hr Ht. eapply inv_terminal;
      [reflexivity | apply pool_invariant; exact Hr | exact Ht].
  Qed.

  (* 3. termination under any scheduler *)
  Theorem pool_variant : forall s s', step s s' -> measure s' < measure s.
  Proof. apply step_measure. Qed.

  Theorem pool_run_length_bound : forall k s s', nsteps k s s' -> k <= measure s.
  Proof. intros k s s' Hns. apply nsteps_measure in Hns. lia. Qed.

  Theorem pool_no_infinite_run : forall tr : nat -> state,
    (forall i, step (tr i) (tr (S i))) -> False.
  Proof. apply no_infinite_run. Qed.

  Theorem pool_step_wf : forall s, Acc (fun s2 s1 => step s1 s2) s.
  Proof. apply step_wf. Qed.

  (* explicit bound: 14 n + w + 14 steps *)
  Theorem pool_measure_init : measure (init files w) = 14 * n + w + 14.
  Proof.
    unfold measure, init, fweight. simpl.
    assert (Hs : forall k, list_sum (map wweight (repeat Recv k)) = k).
    { induction k as [|k IH]; simpl; [reflexivity | rewrite IH; reflexivity]. }
    rewrite Hs. lia.
  Qed.

  (* every maximal run from the initial state is finite (at most
     [measure (init files w)] steps) and ends in a state with main = Done *)
  Theorem pool_terminates : forall tr : nat -> option state,
    is_run n w readable tr -> tr 0 = Some (init files w) ->
    exists k s, k <= measure (init files w) /\
                tr k = Some s /\ tr (S k) = None /\
                reachable s /\ terminal s /\ main s = Done.
  Proof.
    intros tr Hrun H0.
    destruct (@maximal_run_finite n w readable files eq_refl tr (init files w)
                pool_inv_init Hrun H0)
      as [k [s [Hk [Hs [Hnone [Hns [Ht Hd]]]]]]].
    exists k, s. repeat split; try assumption.
    eapply nsteps_star. eassumption.
  Qed.

  (* and from every reachable state some terminal state (with main = Done) is
     reachable *)
  Theorem pool_can_finish : forall s, reachable s ->
    exists s', star s s' /\ terminal s' /\ main s' = Done.
  Proof.
    intros s Hr. destruct (reaches_terminal n w readable s) as [s' [Hstar Ht]].
    exists s'. split; [assumption|]. split; [assumption|].
    apply pool_terminal_shape; [|assumption].
    eapply star_trans; eassumption.
  Qed.

  (* 4. delivery *)
  Theorem pool_delivers : forall s, 1 <= w -> reachable s -> main s = Done ->
    Permutation (merged s) (filter readable files).
  Proof.
    intros s Hw Hr Hd.
    eapply inv_delivers; [reflexivity | exact Hw | apply pool_invariant; exact Hr | exact Hd].
  Qed.

  Theorem pool_delivers_exactly_once : forall s, 1 <= w -> NoDup files ->
    reachable s -> main s = Done ->
    NoDup (merged s) /\
    (forall f, In f (merged s) <-> In f files /\ readable f = true) /\
    Permutation files (merged s ++ skipped s).
  Proof.
    intros s Hw Hnd Hr Hd. pose proof (pool_delivers Hw Hr Hd) as Hp.
    split; [|split].
    - eapply Permutation_NoDup; [apply Permutation_sym; eassumption|].
      apply NoDup_filter. assumption.
    - intros f. rewrite <- filter_In. split; intros Hin.
      + eapply Permutation_in; eassumption.
      + eapply Permutation_in; [apply Permutation_sym|]; eassumption.
    - eapply inv_delivers; [reflexivity | exact Hw | apply pool_invariant; exact Hr | exact Hd].
  Qed.

End Main.

Print Assumptions enabled_steps_iff.
Print Assumptions pool_inv_step.
Print Assumptions pool_invariant.
Print Assumptions pool_exactly_one_place.
Print Assumptions pool_capacities.
Print Assumptions pool_sends_never_block.
Print Assumptions pool_no_items_when_no_files.
Print Assumptions pool_progress.
Print Assumptions pool_terminal_shape.
Print Assumptions pool_variant.
Print Assumptions pool_no_infinite_run.
Print Assumptions pool_measure_init.
Print Assumptions pool_terminates.
Print Assumptions pool_can_finish.
Print Assumptions pool_delivers.
Print Assumptions pool_delivers_exactly_once.


(* ---------------------------------------------------------------------- *)
(* The reorder-buffer specification [buffered]                             *)
(* ---------------------------------------------------------------------- *)

Lemma buffered_perm : forall w h q p, buffered w h q p -> Permutation p (h ++ q).
Proof.
  intros w h q p Hb. induction Hb as [| h f q p Hroom Hb IH | h1 f h2 q p Hb IH].
  - constructor.
  - rewrite <- app_assoc in IH. exact IH.
  - rewrite <- app_assoc in *. simpl. apply Permutation_cons_app. exact IH.
Qed.

(* the buffer is a multiset *)
Lemma buffered_perm_h : forall w h q p, buffered w h q p ->
  forall h', Permutation h h' -> buffered w h' q p.
Proof.
  intros w h q p Hb. induction Hb as [| h f q p Hroom Hb IH | h1 f h2 q p Hb IH];
    intros h' Hp.
  - apply Permutation_nil in Hp. subst. constructor.
  - apply buf_take.
    + apply Permutation_length in Hp. lia.
    + apply IH. apply Permutation_app_tail. assumption.
  - assert (Hin : In f h').
    { eapply Permutation_in; [eassumption | apply in_elt]. }
    apply in_split in Hin. destruct Hin as [h1' [h2' ->]].
    apply buf_emit. apply IH. eapply Permutation_app_inv. eassumption.
Qed.

(* window condition => buffered.  The condition says: the element emitted
   after [length p1] others is in the buffer or among the next
   [w + length p1 - length h] inputs. *)
Lemma window_buffered : forall w m h q p,
  length q + length p <= m ->
  NoDup p -> Permutation p (h ++ q) -> length h <= w ->
  (forall p1 f p2, p = p1 ++ f :: p2 ->
     In f (h ++ firstn (w + length p1 - length h) q)) ->
  buffered w h q p.
Proof.
  unfold file. intros w. induction m as [|m IH]; intros h q p Hm Hnd Hperm Hh Hwin.
  - destruct p as [|f p]; [|simpl in Hm; lia].
    apply Permutation_nil in Hperm. apply app_eq_nil in Hperm.
    destruct Hperm as [-> ->]. constructor.
  - destruct p as [|f p].
    { apply Permutation_nil in Hperm. apply app_eq_nil in Hperm.
      destruct Hperm as [-> ->]. constructor. }
    pose proof (Hwin [] f p eq_refl) as Hf. simpl in Hf. rewrite Nat.add_0_r in Hf.
    destruct (in_dec Nat.eq_dec f h) as [Hin | Hnin].
    + apply in_split in Hin. destruct Hin as [h1 [h2 ->]].
      apply buf_emit. apply IH; unfold file in *.
      * simpl in Hm |- *. lia.
      * inversion Hnd; assumption.
      * rewrite <- app_assoc in Hperm. simpl in Hperm.
        apply Permutation_cons_app_inv in Hperm. rewrite <- app_assoc. exact Hperm.
      * rewrite app_length in *. simpl in Hh. lia.
      * intros p1 g p2 Hp. subst p.
        pose proof (Hwin (f :: p1) g p2 eq_refl) as Hg.
        assert (Hgf : g <> f).
        { inversion Hnd as [|x l Hx Hl]; subst. intros ->. apply Hx. apply in_elt. }
        rewrite app_length in *. simpl in *.
        replace (w + S (length p1) - (length h1 + S (length h2)))
          with (w + length p1 - (length h1 + length h2)) in Hg by lia.
        rewrite <- app_assoc in Hg. simpl in Hg.
        apply in_app_or in Hg. rewrite <- app_assoc.
        apply in_or_app. destruct Hg as [Hg | [Hg | Hg]].
        -- left. assumption.
        -- exfalso. apply Hgf. symmetry. assumption.
        -- right. assumption.
    + apply in_app_or in Hf. destruct Hf as [Hf | Hf]; [contradiction|].
      assert (Hroom : length h < w).
      { destruct (w - length h) eqn:Hd; [simpl in Hf; contradiction | lia]. }
      destruct q as [|g q]; [rewrite firstn_nil in Hf; contradiction|].
      apply buf_take; [assumption|]. apply IH; unfold file in *.
      * simpl in Hm |- *. lia.
      * assumption.
      * rewrite <- app_assoc. simpl. exact Hperm.
      * rewrite app_length. simpl. lia.
      * intros p1 x p2 Hp.
        pose proof (Hwin p1 x p2 Hp) as Hx.
        rewrite app_length. simpl.
        replace (w + length p1 - length h)
          with (S (w + length p1 - (length h + 1))) in Hx by lia.
        simpl in Hx. rewrite <- app_assoc. simpl. exact Hx.
Qed.

(* index form of the window condition *)
Lemma window_nth_buffered : forall w q p,
  NoDup q -> Permutation p q ->
  (forall i, i < length p -> In (nth i p 0) (firstn (i + w) q)) ->
  buffered w [] q p.
Proof.
  intros w q p Hnd Hperm Hwin.
  apply window_buffered with (m := length q + length p); unfold file in *.
  - lia.
  - eapply Permutation_NoDup; [apply Permutation_sym|]; eassumption.
  - simpl. assumption.
  - simpl. lia.
  - intros p1 f p2 Hp. simpl. rewrite Nat.sub_0_r.
    specialize (Hwin (length p1)).
    rewrite Hp in Hwin. rewrite app_length in Hwin. simpl in Hwin.
    rewrite app_nth2 in Hwin by lia. rewrite Nat.sub_diag in Hwin. simpl in Hwin.
    rewrite Nat.add_comm. apply Hwin. lia.
Qed.

(* with room for everything, every permutation can be produced *)
Lemma buffered_all_perms : forall w q p,
  length q <= w -> Permutation p q -> buffered w [] q p.
Proof.
  intros w q p Hw Hperm.
  assert (Htake : forall q h, length h + length q <= w ->
            buffered w (h ++ q) [] p -> buffered w h q p).
  { clear. induction q as [|f q IH]; intros h Hlen Hb.
    - rewrite app_nil_r in Hb. exact Hb.
    - simpl in Hlen. apply buf_take; [lia|]. apply IH.
      + rewrite app_length. simpl. lia.
      + rewrite <- app_assoc. exact Hb. }
  apply Htake; [simpl; lia|]. simpl.
  clear Htake Hw. revert q Hperm.
  induction p as [|f p IH]; intros q Hperm.
  - apply Permutation_nil in Hperm. subst. constructor.
  - assert (Hin : In f q).
    { eapply Permutation_in; [eassumption | left; reflexivity]. }
    apply in_split in Hin. destruct Hin as [h1 [h2 ->]].
    apply buf_emit. apply IH.
    apply Permutation_cons_app_inv in Hperm. exact Hperm.
Qed.


(* ====================================================================== *)
(* 5. Merge orders (stretch): with n <= w every permutation of the         *)
(*    readable files is a reachable merge order.                           *)
(* ====================================================================== *)

Section Orders.

  Variable n : nat.
  Variable w : nat.
  Variable readable : file -> bool.

  Notation step := (step n w readable).
  Notation star := (star n w readable).

  Ltac one c := eapply star_step; [ eapply c; simpl; try eassumption; try lia | ].

  (* main: send everything, close, start both helper goroutines *)
  Lemma run_send_all : forall rest q ws,
    length q + length rest <= n ->
    star (St (Sending rest) q false ws 0 0 [] GNotStarted CNotStarted [] [])
         (St (Sending []) (q ++ rest) false ws 0 0 [] GNotStarted CNotStarted [] []).
  Proof.
    induction rest as [|f rest IH]; intros q ws Hlen; simpl in *.
    - rewrite app_nil_r. apply star_refl.
    - one step_m_send.
      replace (q ++ f :: rest) with ((q ++ [f]) ++ rest)
        by (rewrite <- app_assoc; reflexivity).
      apply IH. rewrite app_length. simpl. lia.
  Qed.

  (* states in which main sits in the collection loop and both helper
     goroutines run *)
  Definition stC q ws p r co mg sk : state :=
    St Collect q true ws 0 p r GRunning co mg sk.

  Lemma run_main_prefix : forall files, length files <= n ->
    star (init files w) (stC files (repeat Recv w) 0 [] CWaiting [] []).
  Proof.
    intros files Hlen. unfold init.
    eapply star_trans; [apply run_send_all; simpl; lia|]. simpl.
    one step_m_sent_all. one step_m_close. one step_m_start_status.
    one step_m_start_closer. apply star_refl.
  Qed.

  (* one worker takes the head of fileChan and runs (with the status updater
     draining statusChan) until it is about to send its result, or has
     skipped the file *)
  Lemma run_one_readable : forall f q l1 l2 r sk, 0 < w -> readable f = true ->
    star (stC (f :: q) (l1 ++ Recv :: l2) 0 r CWaiting [] sk)
         (stC q (l1 ++ SendResult f :: l2) 0 r CWaiting [] sk).
  Proof.
    intros f q l1 l2 r sk Hw Hr. unfold stC.
    one step_w_recv. one step_w_status1. one step_g_status.
    one step_w_read_ok. one step_w_status2. one step_g_status.
    one step_w_build. one step_w_status3. one step_g_status.
    apply star_refl.
  Qed.

  Lemma run_one_unreadable : forall f q l1 l2 r sk, 0 < w -> readable f = false ->
    star (stC (f :: q) (l1 ++ Recv :: l2) 0 r CWaiting [] sk)
         (stC q (l1 ++ Recv :: l2) 0 r CWaiting [] (f :: sk)).
  Proof.
    intros f q l1 l2 r sk Hw Hr. unfold stC.
    one step_w_recv. one step_w_status1. one step_g_status.
    one step_w_read_fail. apply star_refl.
  Qed.

  Lemma run_dispatch : forall q done k sk,
    length q <= k -> length q <= w ->
    exists sk',
      star (stC q (done ++ repeat Recv k) 0 [] CWaiting [] sk)
           (stC [] (done ++ map SendResult (filter readable q)
                         ++ repeat Recv (k - length (filter readable q)))
                0 [] CWaiting [] sk').
  Proof.
    induction q as [|f q IH]; intros done k sk Hk Hw; simpl in *.
    - exists sk. rewrite Nat.sub_0_r. apply star_refl.
    - destruct k as [|k]; [lia|].
      destruct (readable f) eqn:Hr.
      + destruct (IH (done ++ [SendResult f]) k sk) as [sk' Hstar]; [lia | lia |].
        exists sk'. eapply star_trans.
        * simpl. apply run_one_readable; [lia | assumption].
        * rewrite <- !app_assoc in Hstar. simpl in Hstar. simpl. exact Hstar.
      + destruct (IH done (S k) (f :: sk)) as [sk' Hstar]; [lia | lia |].
        exists sk'. eapply star_trans.
        * simpl. apply run_one_unreadable; [lia | assumption].
        * exact Hstar.
  Qed.

  (* a worker that is not in the middle of a file *)
  Definition calm (x : wstate) : Prop :=
    x = Recv \/ (exists f, x = SendResult f) \/ (0 < n /\ exists f, x = SendProgress f).

  Lemma calm_split : forall ws f, Forall calm ws -> In f (held ws) ->
    exists l1 l2, ws = l1 ++ SendResult f :: l2.
  Proof.
    induction ws as [|x t IH]; intros f Hc Hin; simpl in *; [contradiction|].
    inversion Hc as [|x' t' Hx Ht]; subst.
    apply in_app_or in Hin. destruct Hin as [Hin | Hin].
    - destruct Hx as [-> | [[g ->] | [_ [g ->]]]]; simpl in Hin; try contradiction.
      destruct Hin as [<- | []]. exists [], t. reflexivity.
    - destruct (IH f Ht Hin) as [l1 [l2 ->]]. exists (x :: l1), l2. reflexivity.
  Qed.

  (* results are sent in the order p *)
  Lemma run_send_results : forall p ws r sk,
    Forall calm ws -> Permutation p (held ws) -> length r + length p <= n ->
    exists ws',
      star (stC [] ws 0 r CWaiting [] sk) (stC [] ws' 0 (r ++ p) CWaiting [] sk)
      /\ Forall calm ws' /\ held ws' = [].
  Proof.
    induction p as [|f p IH]; intros ws r sk Hc Hp Hlen.
    - exists ws. rewrite app_nil_r. split; [apply star_refl|]. split; [assumption|].
      apply Permutation_nil. assumption.
    - assert (Hin : In f (held ws)).
      { eapply Permutation_in; [eassumption | left; reflexivity]. }
      destruct (calm_split _ Hc Hin) as [l1 [l2 ->]].
      unfold held in Hp. rewrite flat_map_mid in Hp. simpl in Hp.
      apply Permutation_cons_app_inv in Hp.
      apply Forall_app in Hc. destruct Hc as [Hc1 Hc2].
      inversion Hc2 as [|x' t' _ Hc2']; subst.
      simpl in Hlen.
      destruct (IH (l1 ++ SendProgress f :: l2) (r ++ [f]) sk) as [ws' [Hstar [Hc' Hh']]].
      + apply Forall_app. split; [assumption|]. constructor; [|assumption].
        right. right. split; [lia|]. exists f. reflexivity.
      + unfold held. rewrite flat_map_mid. simpl. assumption.
      + rewrite app_length. simpl. lia.
      + exists ws'. split; [|split; assumption].
        unfold stC in *. one step_w_send_result.
        rewrite <- app_assoc in Hstar. simpl in Hstar. exact Hstar.
  Qed.

  (* every worker sends its progress item (immediately consumed) and exits *)
  Lemma run_exit_all : forall ws done r sk,
    Forall calm ws -> held ws = [] ->
    star (stC [] (done ++ ws) 0 r CWaiting [] sk)
         (stC [] (done ++ repeat WExited (length ws)) 0 r CWaiting [] sk).
  Proof.
    induction ws as [|x t IH]; intros done r sk Hc Hh; simpl.
    - apply star_refl.
    - inversion Hc as [|x' t' Hx Ht]; subst.
      unfold held in Hh. simpl in Hh. apply app_eq_nil in Hh. destruct Hh as [Hhx Hht].
      assert (Hgoal : star (stC [] ((done ++ [WExited]) ++ t) 0 r CWaiting [] sk)
                           (stC [] ((done ++ [WExited]) ++ repeat WExited (length t))
                                0 r CWaiting [] sk)).
      { apply IH; assumption. }
      rewrite <- !app_assoc in Hgoal. simpl in Hgoal.
      destruct Hx as [-> | [[g ->] | [Hn [g ->]]]]; simpl in Hhx.
      + unfold stC in *. one step_w_exit. exact Hgoal.
      + discriminate.
      + unfold stC in *. one step_w_send_progress. one step_g_progress.
        one step_w_exit. exact Hgoal.
  Qed.

  Lemma forallb_exited_repeat : forall k, forallb is_exited (repeat WExited k) = true.
  Proof. induction k as [|k IH]; simpl; auto. Qed.

  Lemma run_collect : forall r ws st mg sk,
    star (St Collect [] true ws 0 0 r st CFired mg sk)
         (St Join [] true ws 0 0 [] st CFired (mg ++ r) sk).
  Proof.
    induction r as [|f r IH]; intros ws st mg sk.
    - rewrite app_nil_r. one step_m_done. apply star_refl.
    - one step_m_collect.
      replace (mg ++ f :: r) with ((mg ++ [f]) ++ r)
        by (rewrite <- app_assoc; reflexivity).
      apply IH.
  Qed.

  Lemma held_parked : forall l k,
    held (map SendResult l ++ repeat Recv k) = l.
  Proof.
    intros l k. unfold held. rewrite flat_map_app.
    assert (H1 : flat_map wheld (map SendResult l) = l).
    { induction l as [|f l IH]; simpl; [reflexivity | rewrite IH; reflexivity]. }
    rewrite H1. fold (held (repeat Recv k)). rewrite held_repeat_Recv, app_nil_r.
    reflexivity.
  Qed.

  Lemma calm_parked : forall l k, Forall calm (map SendResult l ++ repeat Recv k).
  Proof.
    intros l k. apply Forall_app. split.
    - induction l as [|f l IH]; simpl; constructor; [|assumption].
      right. left. exists f. reflexivity.
    - induction k as [|k IH]; simpl; constructor; [|assumption]. left. reflexivity.
  Qed.

  Lemma filter_length_le' : forall (g : file -> bool) l, length (filter g l) <= length l.
  Proof.
    intros g l. induction l as [|x l IH]; simpl; [lia|]. destruct (g x); simpl; lia.
  Qed.

  (* once every worker is calm and holds nothing, and fileChan is empty:
     workers exit, the closer fires, main merges what is in resultChan *)
  Lemma run_finish : forall ws r sk, Forall calm ws -> held ws = [] ->
    exists s, star (stC [] ws 0 r CWaiting [] sk) s /\ terminal n w readable s /\
              main s = Done /\ merged s = r.
  Proof.
    intros ws r sk Hc Hh.
    pose proof (@run_exit_all ws [] r sk Hc Hh) as Hexit. simpl in Hexit.
    eexists. split.
    - eapply star_trans; [exact Hexit|].
      unfold stC.
      one step_c_wait; [apply forallb_exited_repeat|].
      one step_c_close_status. one step_c_close_progress.
      eapply star_trans; [apply run_collect|]. simpl.
      one step_g_exit_status. one step_m_join. apply star_refl.
    - split; [|split; reflexivity].
      intros s' Hstep. inversion Hstep; subst;
        match goal with
        | H : ?l1 ++ ?x :: ?l2 = repeat WExited _ |- _ =>
            assert (Hx : x = WExited)
              by (eapply repeat_spec; rewrite <- H; apply in_elt);
            discriminate
        end.
  Qed.

  Lemma run_any_order : forall files p,
    length files = n -> n <= w ->
    Permutation p (filter readable files) ->
    exists s, star (init files w) s /\ terminal n w readable s /\
              main s = Done /\ merged s = p.
  Proof.
    intros files p Hlen Hw Hp.
    destruct (@run_dispatch files [] w []) as [sk Hdisp]; [lia | lia |].
    simpl in Hdisp.
    set (ws0 := map SendResult (filter readable files)
                ++ repeat Recv (w - length (filter readable files))) in *.
    pose proof (filter_length_le' readable files) as Hfl.
    destruct (@run_send_results p ws0 [] sk) as [ws1 [Hsend [Hc1 Hh1]]].
    { apply calm_parked. }
    { unfold ws0. rewrite held_parked. assumption. }
    { apply Permutation_length in Hp. simpl. lia. }
    simpl in Hsend.
    destruct (run_finish p sk Hc1 Hh1) as [s [Hfin [Ht [Hd Hm]]]].
    exists s. split; [|auto].
    eapply star_trans; [apply run_main_prefix; lia|].
    eapply star_trans; [exact Hdisp|].
    eapply star_trans; [exact Hsend|]. exact Hfin.
  Qed.

  (* ---- general form: any order a w-place reorder buffer can produce ---- *)

  Definition free (x : wstate) : Prop :=
    x = Recv \/ (0 < n /\ exists f, x = SendProgress f).

  Lemma free_worker : forall ws, Forall calm ws -> length (held ws) < length ws ->
    exists l1 x l2, ws = l1 ++ x :: l2 /\ free x.
  Proof.
    induction ws as [|x t IH]; intros Hc Hlt; simpl in *; [lia|].
    inversion Hc as [|x' t' Hx Ht]; subst.
    destruct Hx as [-> | [[g ->] | [Hn [g ->]]]].
    - exists [], Recv, t. split; [reflexivity | left; reflexivity].
    - unfold held in Hlt. simpl in Hlt.
      destruct (IH Ht) as [l1 [x [l2 [-> Hf]]]]; [unfold held; lia|].
      exists (SendResult g :: l1), x, l2. split; [reflexivity | assumption].
    - exists [], (SendProgress g), t. split; [reflexivity|].
      right. split; [assumption | exists g; reflexivity].
  Qed.

  Lemma free_calm : forall x, free x -> calm x.
  Proof.
    intros x [-> | [Hn [g ->]]]; [left; reflexivity|].
    right. right. split; [assumption | exists g; reflexivity].
  Qed.

  Lemma free_held : forall x, free x -> wheld x = [].
  Proof. intros x [-> | [_ [g ->]]]; reflexivity. Qed.

  Lemma run_make_recv : forall x q l1 l2 r sk, free x ->
    star (stC q (l1 ++ x :: l2) 0 r CWaiting [] sk)
         (stC q (l1 ++ Recv :: l2) 0 r CWaiting [] sk).
  Proof.
    intros x q l1 l2 r sk [-> | [Hn [g ->]]]; unfold stC.
    - apply star_refl.
    - one step_w_send_progress. one step_g_progress. apply star_refl.
  Qed.

  Lemma run_skip_unreadables : forall us q l1 l2 r sk, 0 < w ->
    Forall (fun f => readable f = false) us ->
    exists sk',
      star (stC (us ++ q) (l1 ++ Recv :: l2) 0 r CWaiting [] sk)
           (stC q (l1 ++ Recv :: l2) 0 r CWaiting [] sk').
  Proof.
    induction us as [|u us IH]; intros q l1 l2 r sk Hw Hall; simpl.
    - exists sk. apply star_refl.
    - inversion Hall as [|u' us' Hu Hus]; subst.
      destruct (IH q l1 l2 r (u :: sk) Hw Hus) as [sk' Hstar].
      exists sk'. eapply star_trans; [apply run_one_unreadable; assumption|].
      exact Hstar.
  Qed.

  Lemma filter_cons_split : forall (g : file -> bool) q f qa,
    filter g q = f :: qa ->
    exists us q', q = us ++ f :: q' /\ Forall (fun x => g x = false) us /\
                  g f = true /\ filter g q' = qa.
  Proof.
    intros g. induction q as [|x q IH]; intros f qa Hf; simpl in Hf; [discriminate|].
    destruct (g x) eqn:Hx.
    - inversion Hf; subst. exists [], q. auto.
    - destruct (IH f qa Hf) as [us [q' [-> [Hus [Hgf Hq']]]]].
      exists (x :: us), q'. auto.
  Qed.

  Lemma filter_nil_forall : forall (g : file -> bool) q,
    filter g q = [] -> Forall (fun x => g x = false) q.
  Proof.
    intros g. induction q as [|x q IH]; intros Hf; simpl in Hf; [constructor|].
    destruct (g x) eqn:Hx; [discriminate|]. constructor; auto.
  Qed.

  Lemma run_buffered : forall h qa p, buffered w h qa p ->
    forall q ws r sk,
      filter readable q = qa -> Forall calm ws -> length ws = w ->
      Permutation h (held ws) -> length r + length p <= n ->
      exists q' ws' sk',
        star (stC q ws 0 r CWaiting [] sk) (stC q' ws' 0 (r ++ p) CWaiting [] sk')
        /\ Forall calm ws' /\ held ws' = [] /\ filter readable q' = []
        /\ length ws' = w.
  Proof.
    intros h qa p Hb.
    induction Hb as [| h f qa p Hroom Hb IH | h1 f h2 qa p Hb IH];
      intros q ws r sk Hq Hc Hlen Hp Hcap.
    - exists q, ws, sk. rewrite app_nil_r.
      split; [apply star_refl|]. split; [assumption|].
      split; [apply Permutation_nil; assumption|]. auto.
    - assert (Hfree : length (held ws) < length ws).
      { apply Permutation_length in Hp. lia. }
      destruct (free_worker Hc Hfree) as [l1 [x [l2 [-> Hx]]]].
      destruct (filter_cons_split _ _ Hq) as [us [q' [-> [Hus [Hrf Hq']]]]].
      assert (Hw : 0 < w) by lia.
      destruct (run_skip_unreadables (f :: q') l1 l2 r sk Hw Hus) as [sk1 Hskip].
      apply Forall_app in Hc. destruct Hc as [Hc1 Hc2].
      apply Forall_cons_iff in Hc2. destruct Hc2 as [_ Hc2'].
      unfold held in Hp. rewrite flat_map_mid, (free_held Hx) in Hp. simpl in Hp.
      destruct (IH q' (l1 ++ SendResult f :: l2) r sk1) as [q2 [ws2 [sk2 [Hstar Hrest]]]].
      + assumption.
      + apply Forall_app. split; [assumption|]. constructor; [|assumption].
        right. left. exists f. reflexivity.
      + rewrite app_length in *. simpl in *. assumption.
      + unfold held. rewrite flat_map_mid. simpl.
        eapply Permutation_trans; [apply Permutation_app_comm|]. simpl.
        apply Permutation_cons_app. assumption.
      + assumption.
      + exists q2, ws2, sk2. split; [|assumption].
        eapply star_trans; [apply run_make_recv; assumption|].
        eapply star_trans; [exact Hskip|].
        eapply star_trans; [apply run_one_readable; assumption|].
        exact Hstar.
    - assert (Hin : In f (held ws)).
      { eapply Permutation_in; [eassumption | apply in_elt]. }
      destruct (calm_split _ Hc Hin) as [l1 [l2 ->]].
      unfold held in Hp. rewrite flat_map_mid in Hp. simpl in Hp.
      apply Permutation_app_inv in Hp.
      apply Forall_app in Hc. destruct Hc as [Hc1 Hc2].
      apply Forall_cons_iff in Hc2. destruct Hc2 as [_ Hc2'].
      simpl in Hcap.
      destruct (IH q (l1 ++ SendProgress f :: l2) (r ++ [f]) sk)
        as [q2 [ws2 [sk2 [Hstar Hrest]]]].
      + assumption.
      + apply Forall_app. split; [assumption|]. constructor; [|assumption].
        right. right. split; [lia|]. exists f. reflexivity.
      + rewrite app_length in *. simpl in *. assumption.
      + unfold held. rewrite flat_map_mid. simpl. assumption.
      + rewrite app_length. simpl. lia.
      + exists q2, ws2, sk2. split; [|assumption].
        unfold stC in *. one step_w_send_result.
        rewrite <- app_assoc in Hstar. simpl in Hstar. exact Hstar.
  Qed.

  Lemma calm_repeat_Recv : forall k, Forall calm (repeat Recv k).
  Proof. induction k as [|k IH]; simpl; constructor; [left; reflexivity | assumption]. Qed.

  Lemma run_buffered_order : forall files p,
    length files = n -> 1 <= w ->
    buffered w [] (filter readable files) p ->
    exists s, star (init files w) s /\ terminal n w readable s /\
              main s = Done /\ merged s = p.
  Proof.
    intros files p Hlen Hw Hb.
    pose proof (buffered_perm Hb) as Hperm. simpl in Hperm.
    pose proof (filter_length_le' readable files) as Hfl.
    destruct (@run_buffered [] (filter readable files) p Hb files (repeat Recv w) [] [])
      as [q1 [ws1 [sk1 [Hstar [Hc1 [Hh1 [Hq1 Hl1]]]]]]].
    { reflexivity. }
    { apply calm_repeat_Recv. }
    { apply repeat_length. }
    { rewrite held_repeat_Recv. constructor. }
    { apply Permutation_length in Hperm. simpl. lia. }
    simpl in Hstar.
    (* drain the unreadable files that may remain in fileChan *)
    assert (Hfree : length (held ws1) < length ws1) by (rewrite Hh1; simpl; lia).
    destruct (free_worker Hc1 Hfree) as [l1 [x [l2 [-> Hx]]]].
    assert (Hw' : 0 < w) by lia.
    destruct (run_skip_unreadables [] l1 l2 p sk1 Hw' (filter_nil_forall _ _ Hq1))
      as [sk2 Hskip].
    rewrite app_nil_r in Hskip.
    assert (Hc2 : Forall calm (l1 ++ Recv :: l2)).
    { apply Forall_app in Hc1. destruct Hc1 as [Ha Hb'].
      inversion Hb'; subst. apply Forall_app. split; [assumption|].
      constructor; [left; reflexivity | assumption]. }
    assert (Hh2 : held (l1 ++ Recv :: l2) = []).
    { unfold held in *. rewrite flat_map_mid in *. rewrite (free_held Hx) in Hh1.
      simpl in *. assumption. }
    destruct (run_finish p sk2 Hc2 Hh2) as [s [Hfin [Ht [Hd Hm]]]].
    exists s. split; [|auto].
    eapply star_trans; [apply run_main_prefix; lia|].
    eapply star_trans; [exact Hstar|].
    eapply star_trans; [apply run_make_recv; assumption|].
    eapply star_trans; [exact Hskip|]. exact Hfin.
  Qed.

End Orders.

(* 5. (simple form) if there are at least as many workers as files, every
   permutation of the readable files is the merge order of some complete run *)
Theorem pool_orders_small : forall files w readable p,
  length files <= w ->
  Permutation p (filter readable files) ->
  exists s, reachable files w readable s /\
            terminal (length files) w readable s /\
            main s = Done /\ merged s = p.
Proof.
  intros files w readable p Hw Hp.
  destruct (@run_any_order (length files) w readable files p eq_refl Hw Hp)
    as [s [Hstar [Ht [Hd Hm]]]].
  exists s. unfold reachable. auto.
Qed.

Print Assumptions pool_orders_small.

(* 5. (general form) every order that a reorder buffer with w places can
   produce from the sequence of readable files is the merge order of some
   complete run *)
Theorem pool_orders : forall files w readable p,
  1 <= w ->
  buffered w [] (filter readable files) p ->
  exists s, reachable files w readable s /\
            terminal (length files) w readable s /\
            main s = Done /\ merged s = p.
Proof.
  intros files w readable p Hw Hb.
  destruct (@run_buffered_order (length files) w readable files p eq_refl Hw Hb)
    as [s [Hstar [Ht [Hd Hm]]]].
  exists s. unfold reachable. auto.
Qed.

(* ... in particular every permutation p of the readable files in which the
   file merged at position i is among the first i + w readable files (in
   dispatch order) *)
Theorem pool_orders_window : forall files w readable p,
  1 <= w -> NoDup files ->
  Permutation p (filter readable files) ->
  (forall i, i < length p ->
     In (nth i p 0) (firstn (i + w) (filter readable files))) ->
  exists s, reachable files w readable s /\
            terminal (length files) w readable s /\
            main s = Done /\ merged s = p.
Proof.
  intros files w readable p Hw Hnd Hperm Hwin.
  apply pool_orders; [assumption|].
  apply window_nth_buffered; try assumption.
  apply NoDup_filter. assumption.
Qed.

Print Assumptions pool_orders.
Print Assumptions pool_orders_window.

(* ====================================================================== *)
(* 5'. Converse: every merge order of a complete run is produced by the    *)
(*     w-place reorder buffer, so [buffered] characterises them exactly.   *)
(* ====================================================================== *)

Section OrdersConverse.

  Variable files : list file.
  Variable w : nat.
  Variable readable : file -> bool.

  Notation n := (length files).

  (* abstraction of a pool state to a buffer state *)
  Definition Hs (s : state) : list file := filter readable (held (wk s)).
  Definition Qs (s : state) : list file := filter readable (fq s ++ rest_of (main s)).
  Definition Es (s : state) : list file := merged s ++ rq s.

  (* whatever the buffer can still do from here extends what was emitted *)
  Definition ord_inv (s : state) : Prop :=
    forall p', buffered w (Hs s) (Qs s) p' ->
               buffered w [] (filter readable files) (Es s ++ p').

  Lemma held_length_le : forall ws, length (held ws) <= length ws.
  Proof.
    induction ws as [|x t IH]; simpl; [lia|].
    unfold held in *. simpl. rewrite app_length. destruct x; simpl; lia.
  Qed.

  Lemma ord_step : forall s s', step n w readable s s' ->
    pool_inv w readable files s -> ord_inv s -> ord_inv s'.
  Proof.
    intros s s' Hstep Hinv Hord p' Hb.
    pose proof (inv_wk_len Hinv) as Hlen. pose proof (inv_readable Hinv) as Hrd.
    unfold ord_inv, Hs, Qs, Es in *.
    destruct Hstep; simpl in *; unfold held, held_r in *;
      rewrite ?flat_map_mid in *; simpl in *;
      try (apply Hord; exact Hb).
    - (* main sends f: fq ++ rest unchanged *)
      apply Hord. rewrite <- app_assoc in Hb. simpl in Hb. exact Hb.
    - (* main merges f: merged ++ rq unchanged *)
      replace ((mg ++ [f]) ++ r) with (mg ++ f :: r)
        by (rewrite <- app_assoc; reflexivity).
      apply Hord. exact Hb.
    - (* a worker takes f *)
      apply Hord. destruct (readable f) eqn:Hr.
      + apply buf_take.
        * pose proof (filter_length_le' readable (flat_map wheld l1 ++ flat_map wheld l2)) as H1.
          pose proof (held_length_le l1) as H2. pose proof (held_length_le l2) as H3.
          unfold held in *. rewrite !app_length in *. simpl in *. lia.
        * eapply buffered_perm_h; [exact Hb|].
          rewrite !filter_app. simpl. rewrite Hr.
          eapply Permutation_trans; [apply Permutation_sym, Permutation_middle|].
          apply Permutation_cons_append.
      + rewrite filter_app in Hb. simpl in Hb. rewrite Hr in Hb.
        rewrite <- filter_app in Hb. exact Hb.
    - (* unreadable file dropped: it was not in the abstract buffer *)
      apply Hord. rewrite filter_app. simpl.
      match goal with H : readable _ = false |- _ => rewrite H end.
      rewrite <- filter_app. exact Hb.
    - (* a worker sends its result: emit *)
      replace ((mg ++ r ++ [f]) ++ p') with ((mg ++ r) ++ f :: p')
        by (rewrite <- !app_assoc; reflexivity).
      apply Hord.
      assert (Hr : readable f = true).
      { rewrite !Forall_app in Hrd. destruct Hrd as [[_ Hmid] _].
        inversion Hmid; assumption. }
      rewrite filter_app. simpl. rewrite Hr.
      apply buf_emit. rewrite <- filter_app. exact Hb.
  Qed.

  Lemma ord_star : forall s s', star n w readable s s' ->
    pool_inv w readable files s -> ord_inv s -> ord_inv s'.
  Proof.
    intros s s' Hstar. induction Hstar as [s | s1 s2 s3 Hstep Hstar IH]; intros Hinv Hord.
    - exact Hord.
    - apply IH.
      + eapply pool_inv_step; eassumption.
      + eapply ord_step; eassumption.
  Qed.

  Lemma ord_init : ord_inv (init files w).
  Proof.
    intros p' Hb. unfold Hs, Qs, Es, init in *. simpl in *.
    rewrite held_repeat_Recv in Hb. simpl in Hb. exact Hb.
  Qed.

  Theorem pool_orders_exact : forall s, 1 <= w ->
    reachable files w readable s -> main s = Done ->
    buffered w [] (filter readable files) (merged s).
  Proof.
    intros s Hw Hr Hd.
    pose proof (pool_invariant Hr) as Hinv.
    pose proof (ord_star Hr (pool_inv_init files w readable) ord_init) as Hord.
    pose proof (inv_done Hinv Hd) as [Hrc Hrq].
    pose proof (inv_closed_exited Hinv Hrc) as Hall.
    pose proof (inv_wk_len Hinv) as Hlen.
    assert (Hex : existsb is_exited (wk s) = true).
    { destruct (wk s) as [|x t]; simpl in *; [lia|].
      apply andb_true_iff in Hall. destruct Hall as [Hx _]. rewrite Hx. reflexivity. }
    pose proof (inv_exited_fq Hinv Hex) as [Hfq _].
    specialize (Hord []). unfold Hs, Qs, Es in Hord.
    rewrite Hd, Hfq, Hrq, (held_all_exited _ Hall), !app_nil_r in Hord. simpl in Hord.
    apply Hord. constructor.
  Qed.

  (* exact characterisation of the merge orders of complete runs *)
  Theorem pool_merge_orders_iff : forall p, 1 <= w ->
    (exists s, reachable files w readable s /\ main s = Done /\ merged s = p)
    <-> buffered w [] (filter readable files) p.
  Proof.
    intros p Hw. split.
    - intros [s [Hr [Hd <-]]]. apply pool_orders_exact; assumption.
    - intros Hb. destruct (pool_orders files readable Hw Hb) as [s [Hr [_ [Hd Hm]]]].
      exists s. auto.
  Qed.

End OrdersConverse.

Print Assumptions pool_orders_exact.
Print Assumptions pool_merge_orders_iff.

(* ====================================================================== *)
(* Example: n = 3, w = 2, file 20 unreadable.                              *)
(* ====================================================================== *)

Section Example.

  Definition ex_files : list file := [10; 20; 30].
  Definition ex_readable (f : file) : bool := negb (f =? 20).

  Lemma run_sched_star : forall n w readable sched s,
    star n w readable s (run_sched n w readable sched s).
  Proof.
    intros n w readable sched. induction sched as [|c sched IH]; intros s; cbn [run_sched].
    - apply star_refl.
    - destruct (enabled_steps n w readable s) as [|s1 l] eqn:He.
      + apply star_refl.
      + eapply star_step; [|apply IH].
        apply enabled_steps_sound. rewrite He.
        apply nth_In. apply Nat.mod_upper_bound. discriminate.
  Qed.

  (* scheduler "always the first enabled action": main first, then worker 1,
     worker 2, status updater, closer.  58 = measure (init ex_files 2) steps
     always suffice. *)
  Definition ex_final_1 : state :=
    run_sched 3 2 ex_readable (repeat 0 58) (init ex_files 2).

  Example ex_run_1 :
    reachable ex_files 2 ex_readable ex_final_1 /\
    enabled_steps 3 2 ex_readable ex_final_1 = [] /\
    ex_final_1 =
      St Done [] true [WExited; WExited] 0 0 [] GExited CFired [10; 30] [20].
  Proof.
    split; [apply run_sched_star|]. split; vm_compute; reflexivity.
  Qed.

  (* a different scheduler (choice i at step i) delivers the other order *)
  Definition ex_final_2 : state :=
    run_sched 3 2 ex_readable (seq 0 58) (init ex_files 2).

  Example ex_run_2 :
    reachable ex_files 2 ex_readable ex_final_2 /\
    enabled_steps 3 2 ex_readable ex_final_2 = [] /\
    main ex_final_2 = Done /\ merged ex_final_2 = [30; 10] /\
    skipped ex_final_2 = [20].
  Proof.
    split; [apply run_sched_star|]. repeat split; vm_compute; reflexivity.
  Qed.

  (* the same run as an explicit sequence of transitions *)
  Example ex_run_explicit :
    star 3 2 ex_readable (init ex_files 2)
      (St Done [] true [WExited; WExited] 0 0 [] GExited CFired [10; 30] [20]).
  Proof.
    unfold init, ex_files. simpl.
    (* main: send 10, 20, 30; close; start status updater; start closer *)
    eapply star_step; [apply step_m_send; simpl; lia|]. simpl.
    eapply star_step; [apply step_m_send; simpl; lia|]. simpl.
    eapply star_step; [apply step_m_send; simpl; lia|]. simpl.
    eapply star_step; [apply step_m_sent_all|].
    eapply star_step; [apply step_m_close|].
    eapply star_step; [apply step_m_start_status|].
    eapply star_step; [apply step_m_start_closer|].
    (* worker 1 takes 10, worker 2 takes 20 *)
    eapply star_step; [apply (step_w_recv 3 2 ex_readable 10 Collect [20; 30] true [] [Recv])|].
    eapply star_step; [apply (step_w_recv 3 2 ex_readable 20 Collect [30] true [Status1 10] [])|].
    simpl.
    (* both announce "reading"; statusChan (cap 2) is now full *)
    eapply star_step; [apply (step_w_status1 3 2 ex_readable 10 Collect [30] true [] [Status1 20]); lia|].
    eapply star_step; [apply (step_w_status1 3 2 ex_readable 20 Collect [30] true [Read 10] []); lia|].
    simpl.
    eapply star_step; [apply step_g_status|].
    eapply star_step; [apply step_g_status|].
    (* worker 2: file 20 is unreadable -> continue; takes 30 *)
    eapply star_step; [apply (step_w_read_fail 3 2 ex_readable 20 Collect [30] true [Read 10] []); reflexivity|].
    eapply star_step; [apply (step_w_recv 3 2 ex_readable 30 Collect [] true [Read 10] [])|].
    simpl.
    (* worker 1 processes 10 completely *)
    eapply star_step; [apply (step_w_read_ok 3 2 ex_readable 10 Collect [] true [] [Status1 30]); reflexivity|].
    eapply star_step; [apply (step_w_status2 3 2 ex_readable 10 Collect [] true [] [Status1 30]); lia|].
    eapply star_step; [apply step_g_status|].
    eapply star_step; [apply (step_w_build 3 2 ex_readable 10 Collect [] true [] [Status1 30])|].
    eapply star_step; [apply (step_w_status3 3 2 ex_readable 10 Collect [] true [] [Status1 30]); lia|].
    eapply star_step; [apply step_g_status|].
    eapply star_step; [apply (step_w_send_result 3 2 ex_readable 10 Collect [] true [] [Status1 30]); simpl; lia|].
    eapply star_step; [apply (step_w_send_progress 3 2 ex_readable 10 Collect [] true [] [Status1 30]); lia|].
    simpl.
    (* main merges 10; status updater counts the progress item; worker 1 exits *)
    eapply star_step; [apply step_m_collect|]. simpl.
    eapply star_step; [apply step_g_progress|].
    eapply star_step; [apply (step_w_exit 3 2 ex_readable Collect [] [Status1 30])|].
    simpl.
    (* worker 2 processes 30 *)
    eapply star_step; [apply (step_w_status1 3 2 ex_readable 30 Collect [] true [WExited] []); lia|].
    eapply star_step; [apply step_g_status|].
    eapply star_step; [apply (step_w_read_ok 3 2 ex_readable 30 Collect [] true [WExited] []); reflexivity|].
    eapply star_step; [apply (step_w_status2 3 2 ex_readable 30 Collect [] true [WExited] []); lia|].
    eapply star_step; [apply step_g_status|].
    eapply star_step; [apply (step_w_build 3 2 ex_readable 30 Collect [] true [WExited] [])|].
    eapply star_step; [apply (step_w_status3 3 2 ex_readable 30 Collect [] true [WExited] []); lia|].
    eapply star_step; [apply step_g_status|].
    eapply star_step; [apply (step_w_send_result 3 2 ex_readable 30 Collect [] true [WExited] []); simpl; lia|].
    eapply star_step; [apply (step_w_send_progress 3 2 ex_readable 30 Collect [] true [WExited] []); lia|].
    eapply star_step; [apply (step_w_exit 3 2 ex_readable Collect [WExited] [])|].
    simpl.
    (* closer: wg.Wait returns; three closes *)
    eapply star_step; [apply step_c_wait; reflexivity|].
    eapply star_step; [apply step_c_close_status|].
    eapply star_step; [apply step_c_close_progress|].
    (* main merges 30 and leaves the loop; status updater drains and returns *)
    eapply star_step; [apply step_m_collect|]. simpl.
    eapply star_step; [apply step_m_done; reflexivity|].
    eapply star_step; [apply step_g_progress|].
    eapply star_step; [apply step_g_exit_status; reflexivity|].
    (* the status updater has returned: main passes [<-statusDone] and returns *)
    eapply star_step; [apply step_m_join|].
    apply star_refl.
  Qed.

  (* The subtle point: workers run before the status updater exists.  Here
     worker 1 has filled statusChan (cap 2) and is blocked on its third status
     send, worker 2 is blocked on the empty fileChan, nobody drains statusChan
     -- and the only enabled action is main's next send.  (pool_progress shows
     that main can always go on until it has started the status updater.) *)
  Example ex_workers_block_on_status :
    let s := run_sched 3 2 ex_readable [0; 1; 1; 1; 1; 1] (init ex_files 2) in
    reachable ex_files 2 ex_readable s /\
    s = St (Sending [20; 30]) [] false [Status3 10; Recv] 2 0 []
           GNotStarted CNotStarted [] [] /\
    enabled_steps 3 2 ex_readable s =
      [St (Sending [30]) [20] false [Status3 10; Recv] 2 0 []
          GNotStarted CNotStarted [] []].
  Proof.
    split; [apply run_sched_star|]. split; vm_compute; reflexivity.
  Qed.

End Example.

Print Assumptions ex_run_1.
Print Assumptions ex_run_2.
Print Assumptions ex_run_explicit.
Print Assumptions ex_workers_block_on_status.

(* ====================================================================== *)
(* 6. Quiescence: [Initialize] returns only after the status updater has   *)
(*    returned (main waits for it in [Join]), and nothing the caller can   *)
(*    observe changes afterwards.                                          *)
(* ====================================================================== *)

(* after Initialize returns, the progress display is silent *)
Theorem pool_quiescent : forall files w readable s,
  reachable files w readable s -> main s = Done -> status s = GExited.
Proof.
  intros files w readable s Hr Hd. exact (inv_quiet (pool_invariant Hr) Hd).
Qed.

(* no step taken after the return touches main's program counter or the
   merged results (only [step_m_collect] changes [merged], and that is a step
   of main) *)
Lemma done_step_stable : forall n w readable s s',
  step n w readable s s' -> main s = Done ->
  main s' = Done /\ merged s' = merged s.
Proof.
  intros n w readable s s' Hstep Hd.
  destruct Hstep; simpl in *; try discriminate; split; (assumption || reflexivity).
Qed.

Lemma done_star_stable : forall n w readable s s',
  star n w readable s s' -> main s = Done ->
  main s' = Done /\ merged s' = merged s.
Proof.
  intros n w readable s s' Hstar.
  induction Hstar as [s | s1 s2 s3 Hstep Hstar IH]; intros Hd.
  - split; [assumption | reflexivity].
  - destruct (done_step_stable Hstep Hd) as [Hd2 Hm2].
    destruct (IH Hd2) as [Hd3 Hm3].
    split; [assumption | congruence].
Qed.

(* nothing the caller can observe changes after the return *)
Theorem pool_quiescent_forever : forall files w readable s s',
  reachable files w readable s -> main s = Done ->
  star (length files) w readable s s' ->
  status s' = GExited /\ merged s' = merged s /\ main s' = Done.
Proof.
  intros files w readable s s' Hr Hd Hstar.
  destruct (done_star_stable Hstar Hd) as [Hd' Hm'].
  split; [|split; assumption].
  apply pool_quiescent with (files := files) (w := w) (readable := readable);
    [|assumption].
  unfold reachable in *. eapply star_trans; eassumption.
Qed.

(* a reachable state without successor: main, the status updater and the
   closer have all finished (corollary of pool_terminal_shape) *)
Theorem pool_terminal_all_finished : forall files w readable s,
  reachable files w readable s -> terminal (length files) w readable s ->
  main s = Done /\ status s = GExited /\ closer s = CFired.
Proof.
  intros files w readable s Hr Ht.
  destruct (pool_terminal_shape Hr Ht) as [Hd [Hc [Hg _]]].
  split; [|split]; assumption.
Qed.
