(* Decoding the attributes of supported Java constructs from the CST (C05/C06, stage 1).

   For every supported construct:
     - [X_shape n : bool]  the node has the shape tree-sitter-java gives a well-formed occurrence of
       the construct (which children, in which order, with which field names / types);
     - [X_spec ...]        the construct's attributes "as written in the source", stated only through
       field names ([child_by_field]), child types ([find (is_ty ..)]) and named children
       ([named_kids]) -- never through child indices.
   DecodeFacts.v proves that under the shape the builder model ([entities_of]) creates exactly one
   entity (two for a binary expression with a known operator) carrying the specified attributes.

   Definitions only: this file is extracted and run by the harness on real trees.

   Comments.  A comment may stand between any two tokens; tree-sitter hands it out as a named child
   ([block_comment] / [line_comment]) of the construct it is written in, and a comment standing
   after a child that carries a field name is reported under that field name too.  The parts of a
   construct are its children that are not comments ([parts], [named_parts]).  The shapes of if /
   while / yield / assert / return statements and of a variable declarator describe the PARTS, so
   that comments may stand anywhere between them ([comments_ok]: a comment reported under a field
   name stands after a part carrying that field name, so that the first child carrying a field
   name is a part); blocks, argument lists and type lists allow comments among their named
   children, and their specifications list the named children that are not comments.

   Where a shape is stricter than the grammar (each because the builder's attribute would otherwise
   differ from what is written, or because the case is out of scope):
     - exact child lists: no interleaved ERROR / MISSING children, and (except where stated above)
       no interleaved comments;
     - method_invocation: the name is an [identifier]; no type_arguments, no "super." segment;
       side condition [call_side]: an identifier receiver has non-empty text;
     - object_creation_expression: the type is a (scoped_)type_identifier (a generic type gives an
       empty class name in the builder); unqualified form only;
     - method_declaration: the return type's node type is none of identifier / throws / modifiers /
       formal_parameters; every formal_parameter carries both a type and a name field; no
       annotations between type_parameters and the return type;
     - class_declaration: superclass = "extends" T, super_interfaces = "implements" type_list, the
       "implements" token is a leaf; no permits clause;
     - variable declarations: exactly one declarator, without dimensions;
     - block: side condition [block_braces] (the brace tokens read "{" and "}"). *)
From CPF Require Export Scan.Cst Scan.Build.
From CPF Require Import gen.Tables.
Open Scope bs_scope.

(* ---------- vocabulary ---------- *)
Definition has_field (f : bytes) (k : cst) : bool :=
  match c_field k with Some g => bytes_eqb g f | None => false end.
Definition no_field (k : cst) : bool :=
  match c_field k with None => true | Some _ => false end.

(* an anonymous token of type [t] carrying no field name *)
Definition tok (t : bytes) (k : cst) : bool := is_ty t k && negb (c_named k) && no_field k.

(* text of the (first) child carrying field [f]; empty / None when absent *)
Definition field_text (src : bytes) (n : cst) (f : bytes) : bytes :=
  match child_by_field n f with Some c => content src c | None => [] end.
Definition field_text_opt (src : bytes) (n : cst) (f : bytes) : option bytes :=
  opt_content src (child_by_field n f).

(* the (first) child of type [t] *)
Definition child_of_type (n : cst) (t : bytes) : option cst := find (is_ty t) (c_kids n).

Definition is_nil {A} (l : list A) : bool := match l with [] => true | _ => false end.
Definition olist {A} (o : option A) : list A := match o with Some x => [x] | None => [] end.

(* ---------- comments ---------- *)
(* the named children that are not comments *)
Definition named_parts (n : cst) : list cst := filter not_comment (named_kids n).

(* a comment reported under a field name stands after a part ([seen]: the parts met so far, latest
   first) carrying that field name *)
Fixpoint comments_after (seen ks : list cst) : bool :=
  match ks with
  | [] => true
  | k :: r =>
      if not_comment k then comments_after (k :: seen) r
      else match c_field k with
           | None => true
           | Some f => existsb (has_field f) seen
           end && comments_after seen r
  end.
Definition comments_ok (n : cst) : bool := comments_after [] (c_kids n).

(* an anonymous token's text is its type *)
Definition tok_text_ok (src : bytes) (k : cst) : bool := bytes_eqb (content src k) (c_ty k).

(* ================================================================== *)
(* C06: expressions and statements                                     *)
(* ================================================================== *)

(* ---------- binary_expression: left: operator: right: ---------- *)
Definition binary_shape (n : cst) : bool :=
  is_ty "binary_expression" n &&
  match c_kids n with
  | [l; o; r] => has_field "left" l && has_field "operator" o && negb (c_named o) && has_field "right" r
  | _ => false
  end.

(* (operator, left text, right text) *)
Definition binary_spec (src : bytes) (n : cst) : option (bytes * bytes * bytes) :=
  match child_by_field n "left", child_by_field n "operator", child_by_field n "right" with
  | Some l, Some o, Some r => Some (c_ty o, content src l, content src r)
  | _, _, _ => None
  end.

(* entity kinds, in creation order: [specific; generic] *)
Definition binary_kinds (n : cst) : list bytes :=
  match child_by_field n "operator" with
  | Some o => match lookup_binop (c_ty o) with Some (_, k) => [k] | None => [] end ++ ["binary_expression"]
  | None => []
  end.

(* the 19 Java binary operators and the documented kind of each *)
Definition java_binops : list (bytes * bytes) :=
  [("+", "add_expression"); ("-", "sub_expression"); ("*", "mul_expression"); ("/", "div_expression");
   (">", "comp_expression"); ("<", "comp_expression"); (">=", "comp_expression"); ("<=", "comp_expression");
   ("%", "rem_expression"); (">>", "right_shift_expression"); ("<<", "left_shift_expression");
   ("!=", "ne_expression"); ("==", "eq_expression"); ("&", "bitwise_and_expression");
   ("&&", "and_expression"); ("||", "or_expression"); ("|", "bitwise_or_expression");
   (">>>", "bitwise_right_shift_expression"); ("^", "bitwise_xor_expression")].

Definition binop_kind (op : bytes) : option bytes :=
  match lookup_binop op with Some (_, k) => Some k | None => None end.

(* ---------- if_statement: "if" condition: consequence: ("else" alternative:)? ----------
   (comments anywhere between the parts) *)
Definition if_shape (n : cst) : bool :=
  is_ty "if_statement" n && comments_ok n &&
  match parts n with
  | [k; c; t] => tok "if" k && has_field "condition" c && has_field "consequence" t
  | [k; c; t; el; e] =>
      tok "if" k && has_field "condition" c && has_field "consequence" t
      && tok "else" el && has_field "alternative" e
  | _ => false
  end.

Definition if_spec (src : bytes) (n : cst) : stmt :=
  SIf (field_text_opt src n "condition") (field_text src n "consequence") (field_text src n "alternative").

(* ---------- while_statement: "while" condition: body: (comments anywhere between the parts) ---------- *)
Definition while_shape (n : cst) : bool :=
  is_ty "while_statement" n && comments_ok n &&
  match parts n with
  | [k; c; b] => tok "while" k && has_field "condition" c && has_field "body" b
  | _ => false
  end.
Definition while_spec (src : bytes) (n : cst) : stmt := SWhile (field_text_opt src n "condition").

(* ---------- do_statement: "do" body: "while" condition: ";" ---------- *)
Definition do_shape (n : cst) : bool :=
  is_ty "do_statement" n &&
  match c_kids n with
  | [k; b; w; c; s] => tok "do" k && has_field "body" b && tok "while" w && has_field "condition" c && tok ";" s
  | _ => false
  end.
Definition do_spec (src : bytes) (n : cst) : stmt := SDo (field_text_opt src n "condition").

(* ---------- for_statement ----------
   "for" "(" then either init:local_variable_declaration or a comma-separated list of init:
   expressions followed by ";", then condition:? ";", a comma-separated list of update: expressions,
   ")" and body:.
   Children carrying a field come in the order init* condition? update* body; all other children
   are the anonymous tokens for ( ) ; and ",". *)
Definition for_phase (k : cst) : option nat :=
  if has_field "init" k then Some 0
  else if has_field "condition" k then Some 1
  else if has_field "update" k then Some 2
  else if has_field "body" k then Some 3
  else None.

Definition for_token (k : cst) : bool :=
  negb (c_named k) && no_field k
  && (is_ty "for" k || is_ty "(" k || is_ty ")" k || is_ty ";" k || is_ty "," k).

(* [lo]: phase of the last fielded child seen; the body comes last and once *)
Fixpoint for_kids (ks : list cst) (lo : nat) : bool :=
  match ks with
  | [] => Nat.eqb lo 3
  | k :: r =>
      match for_phase k with
      | Some p => Nat.leb lo p && negb (Nat.eqb lo 3) && negb (Nat.eqb p 1 && Nat.eqb lo 1) && for_kids r p
      | None => for_token k && negb (Nat.eqb lo 3) && for_kids r lo
      end
  end.

Definition for_shape (n : cst) : bool :=
  is_ty "for_statement" n &&
  match c_kids n with
  | k0 :: k1 :: r => tok "for" k0 && tok "(" k1 && for_kids r 0
  | _ => false
  end.

(* init / update: the FIRST expression of a comma-separated list (what the builder keeps) *)
Definition for_spec (src : bytes) (n : cst) : stmt :=
  SFor (field_text_opt src n "init") (field_text_opt src n "condition") (field_text_opt src n "update").

(* ---------- break_statement / continue_statement: kw identifier? ";" ---------- *)
Definition jump_shape (ty kw : bytes) (n : cst) : bool :=
  is_ty ty n &&
  match c_kids n with
  | [k; s] => tok kw k && tok ";" s
  | [k; i; s] => tok kw k && is_ty "identifier" i && tok ";" s
  | _ => false
  end.
Definition break_shape : cst -> bool := jump_shape "break_statement" "break".
Definition continue_shape : cst -> bool := jump_shape "continue_statement" "continue".

(* the label: text of the identifier child, or empty *)
Definition label_spec (src : bytes) (n : cst) : bytes :=
  match child_of_type n "identifier" with Some i => content src i | None => [] end.
Definition break_spec (src : bytes) (n : cst) : stmt := SBreak (label_spec src n).
Definition continue_spec (src : bytes) (n : cst) : stmt := SContinue (label_spec src n).

(* ---------- yield_statement: "yield" e ";" (comments anywhere between the parts) ---------- *)
Definition yield_shape (n : cst) : bool :=
  is_ty "yield_statement" n &&
  match parts n with
  | [k; e; s] => tok "yield" k && c_named e && tok ";" s
  | _ => false
  end.
Definition yield_spec (src : bytes) (n : cst) : stmt :=
  SYield (match named_parts n with e :: _ => content src e | [] => [] end).

(* ---------- assert_statement: "assert" e (":" m)? ";" ----------
   The builder keeps the detail message only when it is a string literal; the specification states
   exactly that (a non-literal message is dropped: pinned behaviour of the builder).
   Comments anywhere between the parts. *)
Definition assert_shape (n : cst) : bool :=
  is_ty "assert_statement" n &&
  match parts n with
  | [k; e; s] => tok "assert" k && c_named e && tok ";" s
  | [k; e; c; m; s] => tok "assert" k && c_named e && tok ":" c && c_named m && tok ";" s
  | _ => false
  end.
Definition assert_spec (src : bytes) (n : cst) : stmt :=
  match named_parts n with
  | [e] => SAssert (content src e) None
  | [e; m] => SAssert (content src e) (if is_ty "string_literal" m then Some (content src m) else None)
  | _ => SAssert [] None
  end.

(* ---------- return_statement: "return" e? ";" (comments anywhere between the parts) ---------- *)
Definition return_shape (n : cst) : bool :=
  is_ty "return_statement" n &&
  match parts n with
  | [k; s] => tok "return" k && tok ";" s
  | [k; e; s] => tok "return" k && c_named e && tok ";" s
  | _ => false
  end.
Definition return_spec (src : bytes) (n : cst) : stmt :=
  SReturn (match named_parts n with e :: _ => Some (content src e) | [] => None end).

(* ---------- block: "{" stmt* "}" (comments among the statements are named children) ---------- *)
Fixpoint block_tail (ks : list cst) : bool :=
  match ks with
  | [] => false
  | [k] => tok "}" k
  | k :: r => c_named k && block_tail r
  end.
Definition block_shape (n : cst) : bool :=
  is_ty "block" n &&
  match c_kids n with
  | k0 :: r => tok "{" k0 && block_tail r
  | [] => false
  end.
(* the two brace tokens read "{" and "}" in the source *)
Definition block_braces (src : bytes) (n : cst) : bool :=
  match c_kids n with
  | k0 :: r => bytes_eqb (content src k0) "{"
               && match rev r with kl :: _ => bytes_eqb (content src kl) "}" | [] => false end
  | [] => false
  end.
(* the statements of the block, in order (comments are not statements) *)
Definition block_stmts (src : bytes) (n : cst) : list bytes := List.map (content src) (named_parts n).
(* what the builder stores (defect D29: the brace tokens are listed as statements) *)
Definition block_spec (src : bytes) (n : cst) : stmt := SBlock (["{"] ++ block_stmts src n ++ ["}"]).

(* ---------- argument_list: "(" (e ("," e)* )? ")" (comments among the arguments are named children) ---------- *)
Fixpoint args_tail (ks : list cst) : bool :=
  match ks with
  | [] => false
  | [k] => tok ")" k
  | k :: r => (if c_named k then negb (punct_stop (c_ty k)) else tok "," k) && args_tail r
  end.
Definition arglist_shape (a : cst) : bool :=
  is_ty "argument_list" a &&
  match c_kids a with
  | k0 :: r => tok "(" k0 && args_tail r
  | [] => false
  end.

(* ---------- method_invocation: (object: ".")? name:identifier arguments:argument_list ---------- *)
Definition call_shape (n : cst) : bool :=
  is_ty "method_invocation" n &&
  match c_kids n with
  | [nm; a] =>
      has_field "name" nm && is_ty "identifier" nm && has_field "arguments" a && arglist_shape a
  | [o; d; nm; a] =>
      has_field "object" o && negb (is_ty "argument_list" o) && tok "." d
      && has_field "name" nm && is_ty "identifier" nm && has_field "arguments" a && arglist_shape a
  | _ => false
  end.

(* side condition on the text: an identifier receiver is not empty (it never is in a parsed file) *)
Definition call_side (src : bytes) (n : cst) : bool :=
  match child_by_field n "object" with
  | Some o => if is_ty "identifier" o then negb (is_nil (content src o)) else true
  | None => true
  end.

(* receiver.name when the receiver is a plain identifier, else just the name *)
Definition call_name_spec (src : bytes) (n : cst) : bytes :=
  match child_by_field n "object" with
  | Some o => if is_ty "identifier" o
              then content src o ++ "." ++ field_text src n "name"
              else field_text src n "name"
  | None => field_text src n "name"
  end.

Definition strip_quotes (s : bytes) : bytes := trim_suffix """" (trim_prefix """" s).

(* argument texts; string literals lose one leading and one trailing quote *)
Definition call_args_spec (src : bytes) (n : cst) : list bytes :=
  match child_by_field n "arguments" with
  | Some a => List.map (fun x => if is_ty "string_literal" x then strip_quotes (content src x)
                                 else content src x) (named_parts a)
  | None => []
  end.

(* ---------- object_creation_expression: "new" type: arguments: class_body? ---------- *)
Definition new_type (t : cst) : bool :=
  has_field "type" t && (is_ty "type_identifier" t || is_ty "scoped_type_identifier" t).
Definition new_shape (n : cst) : bool :=
  is_ty "object_creation_expression" n &&
  match c_kids n with
  | [k; t; a] => tok "new" k && new_type t && has_field "arguments" a && arglist_shape a
  | [k; t; a; b] => tok "new" k && new_type t && has_field "arguments" a && arglist_shape a
                    && is_ty "class_body" b && no_field b
  | _ => false
  end.
(* class name, and (node type, text) of every argument *)
Definition new_spec (src : bytes) (n : cst) : bytes * list (bytes * bytes) :=
  (field_text src n "type",
   match child_by_field n "arguments" with
   | Some a => List.map (fun x => (c_ty x, content src x)) (named_parts a)
   | None => []
   end).

(* ================================================================== *)
(* C05: declarations                                                   *)
(* ================================================================== *)
(* skip an optional leading child satisfying [p] *)
Definition skip_opt (p : cst -> bool) (ks : list cst) : list cst :=
  match ks with
  | k :: r => if p k then r else ks
  | [] => []
  end.

(* the [modifiers] child carries no field name *)
Definition mods_ok (m : cst) : bool := is_ty "modifiers" m && no_field m.

(* text of the modifiers child (empty when there is none) and the visibility keyword written in it *)
Definition modifiers_text (src : bytes) (n : cst) : bytes :=
  match child_of_type n "modifiers" with Some m => content src m | None => [] end.
Definition visibility_spec (src : bytes) (n : cst) : bytes := extract_visibility (modifiers_text src n).
(* texts of the marker annotations (annotations without arguments) among the modifiers *)
Definition annotations_spec (src : bytes) (n : cst) : list bytes :=
  match child_of_type n "modifiers" with Some m => marker_annotations src m | None => [] end.

(* ---------- method_declaration ----------
   modifiers? type_parameters:? type: name:identifier parameters:formal_parameters dimensions?
   throws? then body:block or ";" *)
Definition param_ok (p : cst) : bool :=
  if is_ty "formal_parameter" p
  then match child_by_field p "type", child_by_field p "name" with
       | Some _, Some _ => true
       | _, _ => false
       end
  else true.
Definition formal_params_shape (p : cst) : bool :=
  is_ty "formal_parameters" p && forallb param_ok (named_kids p).

(* the return type: a child the builder's loops over the children do not react to *)
Definition method_type_ok (t : cst) : bool :=
  has_field "type" t
  && negb (is_ty "identifier" t) && negb (is_ty "throws" t) && negb (is_ty "modifiers" t)
  && negb (is_ty "formal_parameters" t).

Definition method_end (ks : list cst) : bool :=
  match ks with
  | [b] => (has_field "body" b && is_ty "block" b) || tok ";" b
  | _ => false
  end.

Definition method_shape (n : cst) : bool :=
  is_ty "method_declaration" n &&
  match skip_opt (fun k => is_ty "type_parameters" k && has_field "type_parameters" k)
          (skip_opt mods_ok (c_kids n)) with
  | t :: nm :: p :: rest =>
      method_type_ok t
      && has_field "name" nm && is_ty "identifier" nm
      && has_field "parameters" p && formal_params_shape p
      && method_end (skip_opt (is_ty "throws") (skip_opt (is_ty "dimensions") rest))
  | _ => false
  end.

Definition method_name_spec (src : bytes) (n : cst) : bytes := field_text src n "name".
Definition method_ret_spec (src : bytes) (n : cst) : bytes := field_text src n "type".
(* (type text, name text) of every formal_parameter, in order *)
Definition method_params_spec (src : bytes) (n : cst) : list (bytes * bytes) :=
  match child_by_field n "parameters" with
  | Some p => List.map (fun q => (field_text src q "type", field_text src q "name"))
                (filter (is_ty "formal_parameter") (named_kids p))
  | None => []
  end.
(* thrown types written as plain type identifiers *)
Definition method_throws_spec (src : bytes) (n : cst) : list bytes :=
  match child_of_type n "throws" with
  | Some t => List.map (content src) (filter (is_ty "type_identifier") (named_kids t))
  | None => []
  end.

(* ---------- class_declaration ----------
   modifiers? "class" name:identifier type_parameters? superclass? super_interfaces? body:class_body *)
Definition superclass_shape (s : cst) : bool :=
  is_ty "superclass" s &&
  match c_kids s with
  | [k; t] => tok "extends" k && c_named t
  | _ => false
  end.
Definition type_list_shape (tl : cst) : bool :=
  is_ty "type_list" tl && forallb (fun k => c_named k || tok "," k) (c_kids tl).
Definition super_interfaces_shape (s : cst) : bool :=
  is_ty "super_interfaces" s &&
  match c_kids s with
  | [k; tl] => tok "implements" k && is_nil (c_kids k) && type_list_shape tl
  | _ => false
  end.

Definition class_shape (n : cst) : bool :=
  is_ty "class_declaration" n &&
  match skip_opt mods_ok (c_kids n) with
  | k :: nm :: rest =>
      tok "class" k && has_field "name" nm && is_ty "identifier" nm
      && match skip_opt super_interfaces_shape
                 (skip_opt superclass_shape (skip_opt (is_ty "type_parameters") rest)) with
         | [b] => is_ty "class_body" b
         | _ => false
         end
  | _ => false
  end.

Definition class_name_spec (src : bytes) (n : cst) : bytes := field_text src n "name".
(* the extended class when it is written as a plain type identifier (a generic or qualified
   superclass is dropped by the builder: pinned behaviour) *)
Definition class_super_spec (src : bytes) (n : cst) : bytes :=
  match child_of_type n "superclass" with
  | Some s => match named_kids s with
              | [t] => if is_ty "type_identifier" t then content src t else []
              | _ => []
              end
  | None => []
  end.
(* the implemented interface types, in order (comments in the list are not types) *)
Definition class_ifaces_spec (src : bytes) (n : cst) : list bytes :=
  match child_of_type n "super_interfaces" with
  | Some s => match child_of_type s "type_list" with
              | Some tl => List.map (content src) (named_parts tl)
              | None => []
              end
  | None => []
  end.

(* ---------- local_variable_declaration / field_declaration with one declarator ----------
   modifiers? type: declarator:variable_declarator(name:identifier ("=" value:)?) ";"
   (comments anywhere between the parts of the declarator) *)
Definition declarator_shape (d : cst) : bool :=
  is_ty "variable_declarator" d && comments_ok d &&
  match parts d with
  | [nm] => has_field "name" nm && is_ty "identifier" nm
  | [nm; e; v] => has_field "name" nm && is_ty "identifier" nm && tok "=" e
                  && has_field "value" v
  | _ => false
  end.

Definition var_type_ok (t : cst) : bool :=
  has_field "type" t && contains "type" (c_ty t)
  && negb (is_ty "variable_declarator" t) && negb (is_ty "modifiers" t).

Definition var_shape (n : cst) : bool :=
  (is_ty "local_variable_declaration" n || is_ty "field_declaration" n) &&
  match skip_opt mods_ok (c_kids n) with
  | [t; d; s] => var_type_ok t && has_field "declarator" d && declarator_shape d && tok ";" s
  | _ => false
  end.

Definition var_name_spec (src : bytes) (n : cst) : bytes :=
  match child_by_field n "declarator" with Some d => field_text src d "name" | None => [] end.
Definition var_type_spec (src : bytes) (n : cst) : bytes := field_text src n "type".
(* initializer text with every space and line feed removed; empty when there is none *)
Definition var_value_spec (src : bytes) (n : cst) : bytes :=
  match child_by_field n "declarator" with
  | Some d => match child_by_field d "value" with
              | Some v => remove_byte nl (remove_byte x20 (content src v))
              | None => []
              end
  | None => []
  end.
Definition var_scope_spec (n : cst) : bytes :=
  if is_ty "local_variable_declaration" n then "local" else "field".

(* ================================================================== *)
(* summary for the harness                                             *)
(* ================================================================== *)
(* which shape predicate holds of [n] ("" when none) *)
Definition shape_of (n : cst) : bytes :=
  if binary_shape n then "binary" else
  if if_shape n then "if" else
  if while_shape n then "while" else
  if do_shape n then "do" else
  if for_shape n then "for" else
  if break_shape n then "break" else
  if continue_shape n then "continue" else
  if yield_shape n then "yield" else
  if assert_shape n then "assert" else
  if return_shape n then "return" else
  if block_shape n then "block" else
  if call_shape n then "call" else
  if new_shape n then "new" else
  if method_shape n then "method" else
  if class_shape n then "class" else
  if var_shape n then "var" else "".

(* the side conditions on the text under which the theorems of DecodeFacts.v are stated *)
Definition side_ok (src : bytes) (n : cst) : bool :=
  if block_shape n then block_braces src n
  else if call_shape n then call_side src n
  else true.

Definition stmt_labels (s : stmt) : list (bytes * list bytes) :=
  match s with
  | SIf c t e => [("cond", olist c); ("then", [t]); ("else", [e])]
  | SWhile c => [("cond", olist c)]
  | SDo c => [("cond", olist c)]
  | SFor i c u => [("init", olist i); ("cond", olist c); ("update", olist u)]
  | SBreak l => [("label", [l])]
  | SContinue l => [("label", [l])]
  | SYield v => [("value", [v])]
  | SAssert e m => [("expr", [e]); ("msg", olist m)]
  | SReturn r => [("value", olist r)]
  | SBlock ss => [("stored", ss)]
  end.

Definition doc_label (d : option javadoc) : list bytes :=
  match d with Some j => [d_commented j] | None => [] end.

(* the specified attribute values of [n], labelled, when some shape (and its side condition) holds *)
Definition decode (src : bytes) (prev : option cst) (n : cst) : option (list (bytes * list bytes)) :=
  if negb (side_ok src n) then None else
  if binary_shape n then
    match binary_spec src n with
    | Some (op, l, r) => Some [("op", [op]); ("left", [l]); ("right", [r]); ("kinds", binary_kinds n)]
    | None => None
    end else
  if if_shape n then Some (stmt_labels (if_spec src n)) else
  if while_shape n then Some (stmt_labels (while_spec src n)) else
  if do_shape n then Some (stmt_labels (do_spec src n)) else
  if for_shape n then Some (stmt_labels (for_spec src n)) else
  if break_shape n then Some (stmt_labels (break_spec src n)) else
  if continue_shape n then Some (stmt_labels (continue_spec src n)) else
  if yield_shape n then Some (stmt_labels (yield_spec src n)) else
  if assert_shape n then Some (stmt_labels (assert_spec src n)) else
  if return_shape n then Some (stmt_labels (return_spec src n)) else
  if block_shape n then Some (("stmts", block_stmts src n) :: stmt_labels (block_spec src n)) else
  if call_shape n then Some [("name", [call_name_spec src n]); ("args", call_args_spec src n)] else
  if new_shape n then
    let '(c, args) := new_spec src n in
    Some [("class", [c]); ("argtypes", List.map fst args); ("args", List.map snd args)] else
  if method_shape n then
    Some [("name", [method_name_spec src n]); ("ret", [method_ret_spec src n]);
          ("vis", [visibility_spec src n]);
          ("ptypes", List.map fst (method_params_spec src n));
          ("pnames", List.map snd (method_params_spec src n));
          ("throws", method_throws_spec src n); ("annots", annotations_spec src n);
          ("doc", doc_label (decl_javadoc src prev))] else
  if class_shape n then
    Some [("name", [class_name_spec src n]); ("vis", [visibility_spec src n]);
          ("super", [class_super_spec src n]); ("ifaces", class_ifaces_spec src n);
          ("annots", annotations_spec src n); ("doc", doc_label (decl_javadoc src prev))] else
  if var_shape n then
    Some [("name", [var_name_spec src n]); ("dtype", [var_type_spec src n]);
          ("value", [var_value_spec src n]); ("scope", [var_scope_spec n]);
          ("vis", [visibility_spec src n])]
  else None.
