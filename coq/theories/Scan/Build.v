(* Model of graph/construct.go: buildGraphFromAST, extractMethodName, parseJavadocTags,
   extractVisibilityModifier and graph/java/parse_statement.go, written from the code line by line.
   Unchecked nil dereferences of the Go code are [Panic] outcomes here. *)
From CPF Require Export Scan.Cst.
From CPF Require Import gen.Tables.
Open Scope bs_scope.

(* ---------- entities ---------- *)
Record jtag := { t_name : bytes; t_text : bytes; t_doc : bytes }.
Record javadoc := { d_tags : list jtag; d_author : bytes; d_version : bytes;
                    d_nlines : nat; d_commented : bytes }.

Inductive stmt :=
| SIf (cond : option bytes) (thn els : bytes)
| SWhile (cond : option bytes)
| SDo (cond : option bytes)
| SFor (init cond incr : option bytes)
| SBreak (label : bytes)
| SContinue (label : bytes)
| SYield (v : bytes)
| SAssert (e : bytes) (msg : option bytes)
| SReturn (r : option bytes)
| SBlock (stmts : list bytes).

Record node := {
  n_idpre : bytes;      (* pre-image of the SHA-256 identity *)
  n_type : bytes; n_name : bytes; n_snippet : bytes; n_line : N; n_ext : bool;
  n_mod : bytes; n_ret : bytes; n_argt : list bytes; n_argv : list bytes;
  n_super : bytes; n_iface : list bytes; n_dtype : bytes; n_scope : bytes; n_value : bytes;
  n_access : bool; n_file : bytes; n_isjava : bool;
  n_throws : list bytes; n_annot : list bytes;
  n_doc : option javadoc;
  n_bin : option (bytes * bytes * bytes);               (* op, left, right *)
  n_new : option (bytes * list (bytes * bytes));        (* class name, args as (type, text) *)
  n_stmt : option stmt }.

Definition blank (idpre ty name snippet : bytes) (line : N) (file : bytes) (isjava : bool) : node :=
  {| n_idpre := idpre; n_type := ty; n_name := name; n_snippet := snippet; n_line := line;
     n_ext := false; n_mod := []; n_ret := []; n_argt := []; n_argv := []; n_super := [];
     n_iface := []; n_dtype := []; n_scope := []; n_value := []; n_access := false;
     n_file := file; n_isjava := isjava; n_throws := []; n_annot := []; n_doc := None;
     n_bin := None; n_new := None; n_stmt := None |}.

Definition set_access (b : bool) (n : node) : node :=
  {| n_idpre := n_idpre n; n_type := n_type n; n_name := n_name n; n_snippet := n_snippet n;
     n_line := n_line n; n_ext := n_ext n; n_mod := n_mod n; n_ret := n_ret n; n_argt := n_argt n;
     n_argv := n_argv n; n_super := n_super n; n_iface := n_iface n; n_dtype := n_dtype n;
     n_scope := n_scope n; n_value := n_value n; n_access := b; n_file := n_file n;
     n_isjava := n_isjava n; n_throws := n_throws n; n_annot := n_annot n; n_doc := n_doc n;
     n_bin := n_bin n; n_new := n_new n; n_stmt := n_stmt n |}.

(* ---------- the graph: a Go map keyed by identity, plus an edge list ---------- *)
Record graph := { g_nodes : list (bytes * node); g_edges : list (bytes * bytes) }.
Definition empty_graph : graph := {| g_nodes := []; g_edges := [] |}.

(* g.Nodes[id] = n : overwrite in place, else append *)
Fixpoint map_insert (k : bytes) (v : node) (m : list (bytes * node)) : list (bytes * node) :=
  match m with
  | [] => [(k, v)]
  | (k', v') :: r => if bytes_eqb k k' then (k, v) :: r else (k', v') :: map_insert k v r
  end.

Definition add_node (n : node) (g : graph) : graph :=
  {| g_nodes := map_insert (n_idpre n) n (g_nodes g); g_edges := g_edges g |}.
Definition add_edge (a b : node) (g : graph) : graph :=
  {| g_nodes := g_nodes g; g_edges := g_edges g ++ [(n_idpre a, n_idpre b)] |}.

(* ---------- outcomes ---------- *)
Inductive result (A : Type) := Ok (a : A) | Panic (site : bytes).
Arguments Ok {A} a. Arguments Panic {A} site.
Definition bind {A B} (r : result A) (f : A -> result B) : result B :=
  match r with Ok a => f a | Panic s => Panic s end.
Notation "'do' x <- r ; k" := (bind r (fun x => k)) (at level 200, x name, r at level 100, k at level 200).
Notation "'do' ' p <- r ; k" := (bind r (fun x => match x with p => k end))
  (at level 200, p pattern, r at level 100, k at level 200).
Definition deref {A} (site : bytes) (o : option A) : result A :=
  match o with Some a => Ok a | None => Panic site end.

(* ---------- helpers of the Go code ---------- *)
Definition is_java_source_file (file : bytes) : bool := bytes_eqb (path_ext file) ".java".

Fixpoint first_visibility (ws : list bytes) : bytes :=
  match ws with
  | [] => []
  | w :: r => if bytes_eqb w "public" || bytes_eqb w "private" || bytes_eqb w "protected"
              then w else first_visibility r
  end.
Definition extract_visibility (modifiers : bytes) : bytes := first_visibility (fields modifiers).

Definition tag_doc (name : bytes) : bytes :=
  if bytes_eqb name "author" then "author" else
  if bytes_eqb name "param" then "param" else
  if bytes_eqb name "see" then "see" else
  if bytes_eqb name "throws" then "throws" else
  if bytes_eqb name "version" then "version" else
  if bytes_eqb name "since" then "since" else "unknown".

(* one line of parseJavadocTags: Some (name, text) when the line contributes a tag *)
Definition javadoc_line (line : bytes) : option (bytes * bytes) :=
  let l1 := trim_space line in
  let l2 := trim_prefix "*" l1 in
  let l3 := trim_space l2 in
  if has_prefix "@" l3 then
    match splitn2 x20 l3 with
    | [p0; p1] => Some (trim_prefix "@" p0, trim_space p1)
    | _ => None
    end
  else None.

Fixpoint javadoc_fold (lines : list bytes) (tags : list jtag) (author version : bytes)
  : list jtag * bytes * bytes :=
  match lines with
  | [] => (tags, author, version)
  | l :: r =>
      match javadoc_line l with
      | Some (name, text) =>
          let t := {| t_name := name; t_text := text; t_doc := tag_doc name |} in
          javadoc_fold r (tags ++ [t])
            (if bytes_eqb name "author" then text else author)
            (if bytes_eqb name "version" then text else version)
      | None => javadoc_fold r tags author version
      end
  end.

Definition parse_javadoc (comment : bytes) : javadoc :=
  let lines := split_on nl (trim_suffix "*/" (trim_prefix "/*" comment)) in
  let '(tags, author, version) := javadoc_fold lines [] [] [] in
  {| d_tags := tags; d_author := author; d_version := version;
     d_nlines := length lines; d_commented := comment |}.

(* javadoc of a declaration: previous sibling is a block_comment starting with "/*" *)
Definition decl_javadoc (src : bytes) (prev : option cst) : option javadoc :=
  match prev with
  | Some p => if is_ty "block_comment" p
              then let c := content src p in
                   if has_prefix "/*" c then Some (parse_javadoc c) else None
              else None
  | None => None
  end.

Definition stmt_id (prefix : bytes) (n : cst) (file : bytes) : bytes :=
  prefix ++ "_" ++ dec (c_row n + 1) ++ "_" ++ dec (c_col n + 1) ++ "_" ++ file.

(* GenerateMethodID pre-image *)
Definition method_id_pre (name : bytes) (params : list bytes) (file : bytes) : bytes :=
  name ++ "-" ++ fmt_strs params ++ "-" ++ file.

Definition position_key (n : cst) : list bytes := [dec (c_row n + 1); dec (c_col n + 1)].

(* extractMethodName *)
Definition extract_method_name (src : bytes) (n : cst) (file : bytes) : result (bytes * bytes) :=
  do '(name, params) <-
    (if is_ty "method_declaration" n then
       Ok (fold_left (fun '(name, params) ch =>
             if is_ty "identifier" ch then (content src ch, params)
             else if is_ty "formal_parameters" ch
                  then (name, params ++ List.map (content src) (named_kids ch))
                  else (name, params)) (c_kids n) ([], []))
     else if is_ty "method_invocation" n then
       fold_left (fun acc ch =>
         do '(name, params) <- acc;
         let name' := if is_ty "identifier" ch
                      then (match name with [] => content src ch | _ => name ++ "." ++ content src ch end)
                      else name in
         match child_by_field n "argument_list" with
         | None => Ok (name', params)
         | Some args =>
             do ps <- fold_left (fun acc2 a =>
                        do ps <- acc2;
                        do a0 <- deref "extractMethodName:argument.Child(0)" (child a 0);
                        Ok (ps ++ [content src a0])) (c_kids args) (Ok params);
             Ok (name', ps)
         end) (c_kids n) (Ok ([], []))
     else Ok ([], []));
  let cont := content src n ++ " " ++ dec (c_row n + 1) ++ ":" ++ dec (c_col n + 1) in
  Ok (name, method_id_pre name params (file ++ "/" ++ cont)).

(* isComment: comments may stand between any two tokens and are never one of the parts of a
   declaration or statement *)
Definition is_comment (n : cst) : bool := is_ty "block_comment" n || is_ty "line_comment" n.
Definition not_comment (n : cst) : bool := negb (is_comment n).

(* the children that are not comments, in order *)
Definition parts (n : cst) : list cst := filter not_comment (c_kids n).

(* partAt(node, i): the i-th child among the children that are not comments; nil when there is none *)
Definition part_at (n : cst) (i : nat) : option cst := nth_error (parts n) i.

Definition opt_content (src : bytes) (o : option cst) : option bytes :=
  match o with Some c => Some (content src c) | None => None end.

Definition last_ident_label (src : bytes) (n : cst) : bytes :=
  fold_left (fun acc ch => if is_ty "identifier" ch then content src ch else acc) (c_kids n) [].

Definition marker_annotations (src : bytes) (mods : cst) : list bytes :=
  List.map (content src) (filter (is_ty "marker_annotation") (c_kids mods)).

Definition lookup_binop (op : bytes) : option (bytes * bytes) :=
  match find (fun '(ops, _, _) => existsb (bytes_eqb op) ops) binop_table with
  | Some (_, idp, ty) => Some (idp, ty)
  | None => None
  end.

Definition punct_stop (t : bytes) : bool :=
  existsb (bytes_eqb t) ["("; ")"; "{"; "}"; "["; "]"; ","].

(* variable_declarator handling inside local_variable_declaration / field_declaration *)
(* the loop over the declarator's children: after every "=" child, the texts of the remaining
   children that are not comments are appended *)
Fixpoint init_text (src : bytes) (ks : list cst) (value : bytes) : bytes :=
  match ks with
  | [] => value
  | k :: r =>
      let value' := if is_ty "=" k
                    then value ++ concat (List.map (content src) (filter not_comment r)) else value in
      init_text src r value'
  end.

Definition declarator (src : bytes) (ch : cst) (name0 value0 : bytes) : bytes * bytes :=
  let name1 := match child_by_field ch "name" with Some nm => content src nm | None => content src ch end in
  (name1, remove_byte nl (remove_byte x20 (init_text src (c_kids ch) value0))).

(* a node with every optional attribute empty *)
Definition mk_node (idpre ty name snip : bytes) (line : N) (ext : bool) (file : bytes) (isj : bool) : node :=
  {| n_idpre := idpre; n_type := ty; n_name := name; n_snippet := snip; n_line := line; n_ext := ext;
     n_mod := []; n_ret := []; n_argt := []; n_argv := []; n_super := []; n_iface := []; n_dtype := [];
     n_scope := []; n_value := []; n_access := false; n_file := file; n_isjava := isj; n_throws := [];
     n_annot := []; n_doc := None; n_bin := None; n_new := None; n_stmt := None |}.

Definition with_stmt (s : stmt) (b : node) : node :=
  {| n_idpre := n_idpre b; n_type := n_type b; n_name := n_name b; n_snippet := n_snippet b;
     n_line := n_line b; n_ext := n_ext b; n_mod := n_mod b; n_ret := n_ret b; n_argt := n_argt b;
     n_argv := n_argv b; n_super := n_super b; n_iface := n_iface b; n_dtype := n_dtype b;
     n_scope := n_scope b; n_value := n_value b; n_access := n_access b; n_file := n_file b;
     n_isjava := n_isjava b; n_throws := n_throws b; n_annot := n_annot b; n_doc := n_doc b;
     n_bin := n_bin b; n_new := n_new b; n_stmt := Some s |}.

Definition stmt_entity (prefix ty : bytes) (src : bytes) (n : cst) (file : bytes) (s : stmt) : node :=
  with_stmt s (mk_node (stmt_id prefix n file) ty ty (content src n) (c_row n + 1) true file
                 (is_java_source_file file)).

(* method_declaration attributes gathered by the loop over the children *)
Definition method_attrs (src : bytes) (n : cst)
  : bytes * list bytes * list bytes * list bytes * list bytes :=
  fold_left (fun '(mods, throws, argt, argv, annots) ch =>
    if is_ty "throws" ch then
      (mods, throws ++ List.map (content src) (filter (is_ty "type_identifier") (named_kids ch)), argt, argv, annots)
    else if is_ty "modifiers" ch then
      (content src ch, throws, argt, argv, annots ++ marker_annotations src ch)
    else if is_ty "formal_parameters" ch then
      fold_left (fun '(mods, throws, argt, argv, annots) p =>
        if is_ty "formal_parameter" p then
          match child_by_field p "type", child_by_field p "name" with
          | Some pt, Some pn => (mods, throws, argt ++ [content src pt], argv ++ [content src pn], annots)
          | _, _ => (mods, throws, argt, argv, annots)
          end
        else (mods, throws, argt, argv, annots)) (named_kids ch) (mods, throws, argt, argv, annots)
    else (mods, throws, argt, argv, annots))
    (c_kids n) ([], [], [], [], []).

Definition call_args (src : bytes) (n : cst) : list bytes :=
  flat_map (fun ch =>
    if is_ty "argument_list" ch then
      List.map (fun a =>
        if is_ty "string_literal" a
        then trim_suffix """" (trim_prefix """" (content src a))
        else content src a) (filter not_comment (named_kids ch))
    else []) (c_kids n).

Definition class_attrs (src : bytes) (n : cst) : bytes * list bytes * bytes * list bytes :=
  fold_left (fun '(mods, annots, super, ifaces) ch =>
    let '(mods1, annots1) := if is_ty "modifiers" ch
                             then (content src ch, annots ++ marker_annotations src ch)
                             else (mods, annots) in
    let super1 := if is_ty "superclass" ch
                  then fold_left (fun s k => if is_ty "type_identifier" k then content src k else s) (c_kids ch) super
                  else super in
    let ifaces1 := if is_ty "super_interfaces" ch
                   then ifaces ++ flat_map (fun tl => List.map (content src) (filter not_comment (named_kids tl))) (c_kids ch)
                   else ifaces in
    (mods1, annots1, super1, ifaces1)) (c_kids n) ([], [], [], []).

Definition var_attrs (src : bytes) (n : cst) : bytes * bytes * bytes * bytes :=
  fold_left (fun '(name, vty, vmod, value) ch =>
    let '(name1, value1) := if is_ty "variable_declarator" ch
                            then declarator src ch name value else (name, value) in
    let vmod1 := if is_ty "modifiers" ch then content src ch else vmod in
    let vty1 := if contains "type" (c_ty ch) then content src ch else vty in
    (name1, vty1, vmod1, value1)) (c_kids n) ([], [], [], []).

Definition new_attrs (src : bytes) (n : cst) : bytes * list (bytes * bytes) :=
  fold_left (fun '(cname, args) ch =>
    let cname1 := if is_ty "type_identifier" ch || is_ty "scoped_type_identifier" ch
                  then content src ch else cname in
    let args1 := if is_ty "argument_list" ch
                 then List.map (fun a => (c_ty a, content src a))
                        (filter (fun a => negb (punct_stop (c_ty a)) && not_comment a) (c_kids ch))
                 else args in
    (cname1, args1)) (c_kids n) ([], []).

(* The switch of visitAST for one CST node: the entities it adds to the graph, in order. *)
Definition entities_of (src file : bytes) (prev : option cst) (n : cst) : result (list node) :=
  let isj := is_java_source_file file in
  let line := (c_row n + 1)%N in
  let snip := content src n in
  let ty := c_ty n in
  if bytes_eqb ty "block" then
    Ok [stmt_entity "block" "BlockStmt" src n file (SBlock (List.map (content src) (parts n)))]
  else if bytes_eqb ty "return_statement" then
    let r := match part_at n 1 with
             | Some c => if c_named c then Some (content src c) else None
             | None => None end in
    Ok [stmt_entity "return" "ReturnStmt" src n file (SReturn r)]
  else if bytes_eqb ty "assert_statement" then
    do c1 <- deref "ParseAssertStatement:partAt(1)" (part_at n 1);
    let msg := match part_at n 3 with
               | Some c3 => if is_ty "string_literal" c3 then Some (content src c3) else None
               | None => None end in
    Ok [stmt_entity "assert" "AssertStmt" src n file (SAssert (content src c1) msg)]
  else if bytes_eqb ty "yield_statement" then
    do c1 <- deref "ParseYieldStatement:partAt(1)" (part_at n 1);
    Ok [stmt_entity "yield" "YieldStmt" src n file (SYield (content src c1))]
  else if bytes_eqb ty "break_statement" then
    Ok [stmt_entity "breakstmt" "BreakStmt" src n file (SBreak (last_ident_label src n))]
  else if bytes_eqb ty "continue_statement" then
    Ok [stmt_entity "continuestmt" "ContinueStmt" src n file (SContinue (last_ident_label src n))]
  else if bytes_eqb ty "if_statement" then
    let thn := match child_by_field n "consequence" with Some c => content src c | None => [] end in
    let els := match child_by_field n "alternative" with Some c => content src c | None => [] end in
    Ok [stmt_entity "ifstmt" "IfStmt" src n file (SIf (opt_content src (child_by_field n "condition")) thn els)]
  else if bytes_eqb ty "while_statement" then
    Ok [stmt_entity "while_stmt" "WhileStmt" src n file (SWhile (opt_content src (child_by_field n "condition")))]
  else if bytes_eqb ty "do_statement" then
    Ok [stmt_entity "dowhile_stmt" "DoStmt" src n file (SDo (opt_content src (child_by_field n "condition")))]
  else if bytes_eqb ty "for_statement" then
    Ok [stmt_entity "for_stmt" "ForStmt" src n file
          (SFor (opt_content src (child_by_field n "init"))
                (opt_content src (child_by_field n "condition"))
                (opt_content src (child_by_field n "update")))]
  else if bytes_eqb ty "binary_expression" then
    do l <- deref "binary_expression:left" (child_by_field n "left");
    do r <- deref "binary_expression:right" (child_by_field n "right");
    do o <- deref "binary_expression:operator" (child_by_field n "operator");
    let op := c_ty o in
    let mk (idp t : bytes) : node :=
      let b := mk_node (idp ++ file ++ [x00] ++ snip) t snip snip line false file isj in
      {| n_idpre := n_idpre b; n_type := t; n_name := snip; n_snippet := snip; n_line := line;
         n_ext := false; n_mod := []; n_ret := []; n_argt := []; n_argv := []; n_super := [];
         n_iface := []; n_dtype := []; n_scope := []; n_value := []; n_access := false;
         n_file := file; n_isjava := isj; n_throws := []; n_annot := []; n_doc := None;
         n_bin := Some (op, content src l, content src r); n_new := None; n_stmt := None |} in
    Ok (match lookup_binop op with
        | Some (idp, t) => [mk idp t]
        | None => [] end ++ [mk "binary_expression" "binary_expression"])
  else if bytes_eqb ty "method_declaration" then
    let doc := decl_javadoc src prev in
    do '(name, idpre) <- extract_method_name src n file;
    let ret := match child_by_field n "type" with Some t => content src t | None => [] end in
    let '(mods, throws, argt, argv, annots) := method_attrs src n in
    Ok [{| n_idpre := idpre; n_type := "method_declaration"; n_name := name; n_snippet := snip;
           n_line := line; n_ext := false; n_mod := extract_visibility mods; n_ret := ret;
           n_argt := argt; n_argv := argv; n_super := []; n_iface := []; n_dtype := [];
           n_scope := []; n_value := []; n_access := false; n_file := file; n_isjava := isj;
           n_throws := throws; n_annot := annots; n_doc := doc; n_bin := None; n_new := None;
           n_stmt := None |}]
  else if bytes_eqb ty "method_invocation" then
    do '(name, idpre) <- extract_method_name src n file;
    Ok [{| n_idpre := idpre; n_type := "method_invocation"; n_name := name; n_snippet := snip;
           n_line := line; n_ext := true; n_mod := []; n_ret := []; n_argt := []; n_argv := call_args src n;
           n_super := []; n_iface := []; n_dtype := []; n_scope := []; n_value := [];
           n_access := false; n_file := file; n_isjava := isj; n_throws := []; n_annot := [];
           n_doc := None; n_bin := None; n_new := None; n_stmt := None |}]
  else if bytes_eqb ty "class_declaration" then
    let doc := decl_javadoc src prev in
    do nm <- deref "class_declaration:name" (child_by_field n "name");
    let name := content src nm in
    let '(mods, annots, super, ifaces) := class_attrs src n in
    Ok [{| n_idpre := method_id_pre name (position_key n) file; n_type := "class_declaration"; n_name := name;
           n_snippet := snip; n_line := line; n_ext := false; n_mod := extract_visibility mods;
           n_ret := []; n_argt := []; n_argv := []; n_super := super; n_iface := ifaces;
           n_dtype := []; n_scope := []; n_value := []; n_access := false; n_file := file;
           n_isjava := isj; n_throws := []; n_annot := annots; n_doc := doc; n_bin := None;
           n_new := None; n_stmt := None |}]
  else if bytes_eqb ty "block_comment" then
    if has_prefix "/*" snip then
      Ok [{| n_idpre := method_id_pre snip (position_key n) file; n_type := "block_comment"; n_name := [];
             n_snippet := snip; n_line := line; n_ext := false; n_mod := []; n_ret := [];
             n_argt := []; n_argv := []; n_super := []; n_iface := []; n_dtype := [];
             n_scope := []; n_value := []; n_access := false; n_file := file; n_isjava := isj;
             n_throws := []; n_annot := []; n_doc := Some (parse_javadoc snip); n_bin := None;
             n_new := None; n_stmt := None |}]
    else Ok []
  else if bytes_eqb ty "local_variable_declaration" || bytes_eqb ty "field_declaration" then
    let '(name, vty, vmod, value) := var_attrs src n in
    let scope : bytes := if bytes_eqb ty "local_variable_declaration" then "local" else "field" in
    Ok [{| n_idpre := method_id_pre name [] file; n_type := "variable_declaration"; n_name := name;
           n_snippet := snip; n_line := line; n_ext := false; n_mod := extract_visibility vmod;
           n_ret := []; n_argt := []; n_argv := []; n_super := []; n_iface := []; n_dtype := vty;
           n_scope := scope; n_value := value; n_access := false; n_file := file; n_isjava := isj;
           n_throws := []; n_annot := []; n_doc := None; n_bin := None; n_new := None;
           n_stmt := None |}]
  else if bytes_eqb ty "object_creation_expression" then
    let '(cname, args) := new_attrs src n in
    Ok [{| n_idpre := method_id_pre cname (position_key n) file; n_type := "ClassInstanceExpr";
           n_name := cname; n_snippet := snip; n_line := line; n_ext := false; n_mod := [];
           n_ret := []; n_argt := []; n_argv := []; n_super := []; n_iface := []; n_dtype := [];
           n_scope := []; n_value := []; n_access := false; n_file := file; n_isjava := isj;
           n_throws := []; n_annot := []; n_doc := None; n_bin := None;
           n_new := Some (cname, args); n_stmt := None |}]
  else Ok [].

Definition add_nodes (ns : list node) (g : graph) : graph := fold_left (fun g e => add_node e g) ns g.

(* graph and currentContext after the switch for one CST node *)
Definition visit_here (src file : bytes) (prev : option cst) (n : cst) (ctx : option node) (g : graph)
  : result (graph * option node) :=
  do ns <- entities_of src file prev n;
  let g1 := add_nodes ns g in
  if is_ty "method_invocation" n then
    Ok (match ctx, ns with Some c, [m] => add_edge c m g1 | _, _ => g1 end, ctx)
  else if is_ty "binary_expression" n || is_ty "method_declaration" n then
    Ok (g1, match rev ns with e :: _ => Some e | [] => ctx end)
  else Ok (g1, ctx).

(* the recursive visitor visitAST *)
Fixpoint visit (src file : bytes) (prev : option cst) (n : cst) (ctx : option node) (g : graph)
  : result graph :=
  do '(g1, ctx1) <- visit_here src file prev n ctx g;
  (fix go (ks : list cst) (prev : option cst) (g : graph) : result graph :=
     match ks with
     | [] => Ok g
     | k :: r => do g' <- visit src file prev k ctx1 g; go r (Some k) g'
     end) (c_kids n) None g1.

(* every entity the traversal creates, in traversal order, before the map merges equal identities *)
Fixpoint census (src file : bytes) (prev : option cst) (n : cst) : result (list node) :=
  do ns <- entities_of src file prev n;
  do rest <- (fix go (ks : list cst) (prev : option cst) : result (list node) :=
                match ks with
                | [] => Ok []
                | k :: r => do a <- census src file prev k; do b <- go r (Some k); Ok (a ++ b)
                end) (c_kids n) None;
  Ok (ns ++ rest).

(* the matching pass: a method declaration is "accessed" when some invocation in the graph has the
   same name and as many arguments as the declaration has parameter types *)
Definition invoked (m : node) (nodes : list (bytes * node)) : bool :=
  existsb (fun '(_, i) => bytes_eqb (n_type i) "method_invocation"
                          && bytes_eqb (n_name i) (n_name m)
                          && Nat.eqb (length (n_argv i)) (length (n_argt m))) nodes.

Definition matching_pass (g : graph) : graph :=
  {| g_nodes := List.map (fun '(k, m) =>
                  if bytes_eqb (n_type m) "method_declaration" && invoked m (g_nodes g)
                  then (k, set_access true m) else (k, m)) (g_nodes g);
     g_edges := g_edges g |}.

Definition build_file (path src : bytes) (t : cst) : result graph :=
  do g <- visit src path None t None empty_graph;
  Ok (matching_pass g).

(* ---------- specification-side helpers (used by theorems and by the harness oracles) ---------- *)
(* the entity kinds one CST node stands for, read off its type alone *)
Definition kinds_of (src : bytes) (n : cst) : list bytes :=
  let ty := c_ty n in
  if bytes_eqb ty "block" then ["BlockStmt"]
  else if bytes_eqb ty "return_statement" then ["ReturnStmt"]
  else if bytes_eqb ty "assert_statement" then ["AssertStmt"]
  else if bytes_eqb ty "yield_statement" then ["YieldStmt"]
  else if bytes_eqb ty "break_statement" then ["BreakStmt"]
  else if bytes_eqb ty "continue_statement" then ["ContinueStmt"]
  else if bytes_eqb ty "if_statement" then ["IfStmt"]
  else if bytes_eqb ty "while_statement" then ["WhileStmt"]
  else if bytes_eqb ty "do_statement" then ["DoStmt"]
  else if bytes_eqb ty "for_statement" then ["ForStmt"]
  else if bytes_eqb ty "binary_expression" then
    match child_by_field n "operator" with
    | Some o => match lookup_binop (c_ty o) with Some (_, t) => [t] | None => [] end ++ ["binary_expression"]
    | None => []
    end
  else if bytes_eqb ty "method_declaration" then ["method_declaration"]
  else if bytes_eqb ty "method_invocation" then ["method_invocation"]
  else if bytes_eqb ty "class_declaration" then ["class_declaration"]
  else if bytes_eqb ty "block_comment" then (if has_prefix "/*" (content src n) then ["block_comment"] else [])
  else if bytes_eqb ty "local_variable_declaration" || bytes_eqb ty "field_declaration" then ["variable_declaration"]
  else if bytes_eqb ty "object_creation_expression" then ["ClassInstanceExpr"]
  else [].

(* the facts about one node that the Go code relies on without checking (nil dereferences otherwise) *)
Definition node_shape_okb (n : cst) : bool :=
  let ty := c_ty n in
  if bytes_eqb ty "assert_statement" || bytes_eqb ty "yield_statement" then
    match part_at n 1 with Some _ => true | None => false end
  else if bytes_eqb ty "binary_expression" then
    match child_by_field n "left", child_by_field n "right", child_by_field n "operator" with
    | Some _, Some _, Some _ => true | _, _, _ => false end
  else if bytes_eqb ty "class_declaration" then
    match child_by_field n "name" with Some _ => true | None => false end
  else if bytes_eqb ty "method_invocation" then
    match child_by_field n "argument_list" with
    | Some args => forallb (fun a => match child a 0 with Some _ => true | None => false end) (c_kids args)
    | None => true end
  else true.

Definition shape_okb (t : cst) : bool := forallb node_shape_okb (cst_nodes t).

(* a count of the work the builder does on one file: one visit per tree node, the bytes copied out
   of the source for snippets and attributes (a bounded number of copies of a node's own text and
   of each child's text), and the declaration/call matching pass (run once) *)
Definition span (n : cst) : nat := N.to_nat (c_eb n - c_sb n).
Definition node_work (n : cst) : nat := 4 * span n + 4 * list_sum (List.map span (c_kids n)).
Definition work (t : cst) (g : graph) : nat :=
  cst_size t + list_sum (List.map node_work (cst_nodes t))
  + length (filter (fun '(_, m) => bytes_eqb (n_type m) "method_declaration") (g_nodes g))
    * length (g_nodes g).
