(* SkelTerm.v -- termination of [pool_program_modelled] under the generic small-step semantics
   (Scan/SkelSem.v), for every list of files, every failure assignment and every scheduler: an executable
   measure on configurations that EVERY step from a reachable configuration strictly decreases.

     sk_measure_w w files s = 10 * Pool.measure (abs files w s) + sum over the goroutines of [gfuel]

   [gfuel] bounds the number of silent micro-steps (steps that [abs] does not see) a goroutine can still
   take before its next visible step: a weighted length of its continuation, where a counted loop weighs
   (iterations * body) -- the bound of SLoopN is the parameter w, the bound of SForEach is length files --
   and the continuation of the status updater's endless loop is weighed by position.  A silent step
   consumes fuel and leaves [abs] unchanged; a step that [abs] maps to a Pool.step decreases Pool.measure
   (PoolFacts.step_measure) and adds at most 9 < 10 fuel (a worker that has received a file gets the nine
   statements of the loop body).  The case analysis follows Scan/SkelSim.v (descriptions [mk_sk]). *)
From CPF Require Import Base.Bytes Base.Skel Scan.SkelSem Scan.Pool Scan.PoolFacts Scan.PoolSkel Scan.SkelAbs
  Scan.SkelSim.
From Coq Require Import List Arith Bool Lia.
Import ListNotations.
Open Scope bs_scope.

(* ---------------------------------------------------------------------- *)
(* The measure                                                             *)
(* ---------------------------------------------------------------------- *)

Section Fuel.
  Variable w : nat.      (* bound of the counted loop (numWorkers) *)
  Variable n : nat.      (* length of the collection of the for-each loop *)

  (* weight of a statement that has not started *)
  Fixpoint stw (st : pstmt) : nat :=
    match st with
    | SLoopN _ b => 2 + w * S (list_sum (map stw b))
    | SForEach _ b => 2 + n * S (list_sum (map stw b))
    | SRange _ _ => 2
    | SGo _ => 6                       (* pays for the first silent steps of the new goroutine *)
    | _ => 1
    end.
  Definition bw (b : list pstmt) : nat := list_sum (map stw b).

  Fixpoint fuel (ok : bool) (k : list kitem) : nat :=
    match k with
    | [] => 0
    | KS SIfClosedReturn :: r => if ok then 1 + fuel ok r else 1
    | KS (SSelect _) :: _ => 2
    | KS (SForever _) :: _ => 4
    | KForever _ :: _ => 3
    | KS st :: r => stw st + fuel ok r
    | KRange _ _ :: r => 1 + fuel ok r
    | KEach rest b :: r => 1 + length rest * S (bw b) + fuel ok r
    | KTimes j b :: r => 1 + j * S (bw b) + fuel ok r
    end.

  Definition gfuel (g : gor) : nat := if g_live g then 1 + fuel (g_ok g) (g_k g) else 0.
End Fuel.

Definition sk_fuel (w : nat) (files : list nat) (s : sk) : nat :=
  list_sum (map (gfuel w (length files)) (s_gors s)).

Definition sk_measure_w (w : nat) (files : list nat) (s : sk) : nat :=
  10 * measure (abs files w s) + sk_fuel w files s.

(* the extracted program: numWorkers = 5 *)
Definition sk_measure (files : list nat) (s : sk) : nat := sk_measure_w 5 files s.

Local Arguments set_gor : simpl never.
Local Arguments Nat.ltb : simpl never.
Local Arguments Nat.eqb : simpl never.
Local Arguments Nat.mul : simpl never.
Local Arguments Nat.add : simpl never.

Section TermW.
  Variable v : bytes.
  Variable w : nat.
  Hypothesis Hv : dec_val 0 v = Some w.
  Variable files : list nat.
  Variable fails : bytes -> nat -> bool.

  Notation n := (length files).
  Notation PROG := (pool_prog_lit v).
  Notation mk_sk := (SkelSim.mk_sk w files).
  Notation mk_chans := (SkelSim.mk_chans w files).
  Notation wgof := (SkelSim.wgof w).
  Notation wf := (SkelSim.wf w fails).
  Notation absd := (SkelSim.absd w files).
  Notation raw := (SkelSim.raw w files).
  Notation readable := (SkelSim.readable fails).
  Notation gfuel := (gfuel w n).
  Notation pstep := (Pool.step n w readable).

  Definition mfuel (M : mst) : nat := gfuel (mgor M).
  Definition wfuel (x : wst) : nat := gfuel (wgor x).
  Definition wsum (ws : list wst) : nat := list_sum (map wfuel ws).
  Definition sfuel (g1 : option sst) : nat := match g1 with Some x => gfuel (sgor x) | None => 0 end.
  Definition cfuel (g2 : option cpc) : nat := match g2 with Some p => gfuel (cgor p) | None => 0 end.
  Definition phid (M : mst) (ws : list wst) (g1 : option sst) (g2 : option cpc) : nat :=
    mfuel M + wsum ws + sfuel g1 + cfuel g2.

  Lemma wsum_mid : forall l1 x l2, wsum (l1 ++ x :: l2) = wsum l1 + wfuel x + wsum l2.
  Proof. intros. unfold wsum. apply list_sum_map_mid. Qed.

  Lemma wsum_snoc : forall l x, wsum (l ++ [x]) = wsum l + wfuel x.
  Proof. intros. rewrite wsum_mid. change (wsum []) with 0. lia. Qed.

  Lemma sk_fuel_mk : forall M ws g1 g2 D, sk_fuel w files (mk_sk M ws g1 g2 D) = phid M ws g1 g2.
  Proof.
    intros M ws g1 g2 D. unfold sk_fuel, SkelSim.mk_sk, phid. cbn [s_gors map list_sum].
    change (list_sum (gfuel (mgor M) :: ?l)) with (gfuel (mgor M) + list_sum l).
    rewrite !map_app, !list_sum_app, map_map. fold (wsum ws).
    unfold mfuel.
    assert (E1 : list_sum (map gfuel (olist (option_map sgor g1))) = sfuel g1).
    { destruct g1; cbn [option_map olist map list_sum sfuel]; [|reflexivity].
      change (list_sum [?a]) with (a + 0). lia. }
    assert (E2 : list_sum (map gfuel (olist (option_map cgor g2))) = cfuel g2).
    { destruct g2; cbn [option_map olist map list_sum cfuel]; [|reflexivity].
      change (list_sum [?a]) with (a + 0). lia. }
    rewrite E1, E2. unfold wsum, wfuel. lia.
  Qed.

  Ltac gsimp H :=
    cbn in H; unfold with_g, do_return in H; cbn in H.

  (* ---------------- workers ---------------- *)

  Lemma fuel_worker : forall M l1 x l2 g1 g2 D s',
    wf M (l1 ++ x :: l2) g1 g2 D ->
    In s' (gstep PROG files fails (mk_sk M (l1 ++ x :: l2) g1 g2 D) (length (mgor M :: map wgor l1))) ->
    exists x' D', s' = mk_sk M (l1 ++ x' :: l2) g1 g2 D' /\
      (wfuel x' < wfuel x \/
       (pstep (absd M (l1 ++ x :: l2) g1 g2 D) (absd M (l1 ++ x' :: l2) g1 g2 D') /\
        wfuel x' <= wfuel x + 9)).
  Proof.
    intros M l1 x l2 g1 g2 D s' W H.
    assert (Hnp : wpend (fst (fst x)) = 1 -> fl1 g2 = false /\ fl2 g2 = false /\ fl3 g2 = false).
    { intros Hp. apply not_past_flags. eapply pending_not_past; eassumption. }
    assert (Hwg : wpend (fst (fst x)) = 1 -> (wgof (l1 ++ x :: l2) =? 0) = false).
    { intros Hp. apply Nat.eqb_neq. rewrite wgof_mid. lia. }
    rewrite mk_sk_worker in H. unfold SkelSim.raw, gstep in H. cbn [s_gors] in H.
    rewrite nth_error_mid in H.
    remember (mgor M :: map wgor l1) as pre eqn:Epre.
    remember (map wgor l2 ++ tailg g1 g2) as post eqn:Epost.
    remember (wgof (l1 ++ x :: l2)) as wg eqn:Ewg.
    destruct x as [[p c] o]. destruct D as [q0 q1 q2 q3 mg skp].
    Ltac weq0 :=
      rewrite mk_sk_worker; unfold SkelSim.raw, SkelSim.mk_chans; subst; rewrite ?set_gor_mid, !wgof_mid.
    Ltac weq := weq0; reflexivity.
    Ltac wdec := left; vm_compute; lia.
    destruct p; cbn [wpend fst] in Hnp, Hwg; gsimp H.
    - (* W_start *)
      destruct H as [H|[]]. subst s'.
      exists (W_range, c, o), (Dt q0 q1 q2 q3 mg skp). split; [weq | wdec].
    - (* W_range *)
      destruct q0 as [|f r].
      + destruct (past_close_m (fst (fst M))) eqn:Hpc; [|destruct H]. destruct H as [H|[]]. subst s'.
        exists (W_done, c, o), (Dt [] q1 q2 q3 mg skp). split; [weq0; rewrite Hpc; reflexivity | wdec].
      + destruct H as [H|[]]. subst s'.
        exists (W_hook, f, true), (Dt r q1 q2 q3 mg skp). split; [weq | right; split].
        * rewrite !absd_worker. cbn [d_q0 d_q1 d_q2 d_q3 d_mg d_skp wabs]. apply step_w_recv.
        * vm_compute. lia.
    - (* W_hook *)
      destruct H as [H|[]]. subst s'.
      exists (W_s1, c, o), (Dt q0 q1 q2 q3 mg skp). split; [weq | wdec].
    - (* W_s1 *)
      destruct (Hnp eq_refl) as (F1 & F2 & F3). rewrite F2 in H. cbv iota in H.
      destruct (length q2 <? w) eqn:Hlt; [|destruct H].
      destruct H as [H|[]]. subst s'.
      exists (W_rd, c, o), (Dt q0 q1 (q2 ++ [c]) q3 mg skp).
      split; [weq0; rewrite F2; reflexivity | wdec].
    - (* W_rd *)
      destruct (fails "readFile" c) eqn:Hf; destruct H as [H|[]]; subst s'.
      + exists (W_range, c, o), (Dt q0 q1 q2 q3 mg (c :: skp)). split; [weq | wdec].
      + exists (W_ps, c, o), (Dt q0 q1 q2 q3 mg skp). split; [weq | wdec].
    - (* W_ps *)
      destruct (fails "parser.ParseCtx" c) eqn:Hf; destruct H as [H|[]]; subst s'.
      + exists (W_range, c, o), (Dt q0 q1 q2 q3 mg (c :: skp)). split; [weq | wdec].
      + exists (W_s2, c, o), (Dt q0 q1 q2 q3 mg skp). split; [weq | wdec].
    - (* W_s2 *)
      destruct (Hnp eq_refl) as (F1 & F2 & F3). rewrite F2 in H. cbv iota in H.
      destruct (length q2 <? w) eqn:Hlt; [|destruct H].
      destruct H as [H|[]]. subst s'.
      exists (W_bd, c, o), (Dt q0 q1 (q2 ++ [c]) q3 mg skp).
      split; [weq0; rewrite F2; reflexivity | wdec].
    - (* W_bd *)
      destruct H as [H|[]]. subst s'.
      exists (W_s3, c, o), (Dt q0 q1 q2 q3 mg skp). split; [weq | wdec].
    - (* W_s3 *)
      destruct (Hnp eq_refl) as (F1 & F2 & F3). rewrite F2 in H. cbv iota in H.
      destruct (length q2 <? w) eqn:Hlt; [|destruct H].
      destruct H as [H|[]]. subst s'.
      exists (W_sr, c, o), (Dt q0 q1 (q2 ++ [c]) q3 mg skp).
      split; [weq0; rewrite F2; reflexivity | wdec].
    - (* W_sr *)
      destruct (Hnp eq_refl) as (F1 & F2 & F3). rewrite F1 in H. cbv iota in H.
      destruct (length q1 <? n) eqn:Hlt; [|destruct H].
      destruct H as [H|[]]. subst s'.
      exists (W_sp, c, o), (Dt q0 (q1 ++ [c]) q2 q3 mg skp).
      split; [weq0; rewrite F1; reflexivity | wdec].
    - (* W_sp *)
      destruct (Hnp eq_refl) as (F1 & F2 & F3). rewrite F3 in H. cbv iota in H.
      destruct (length q3 <? n) eqn:Hlt; [|destruct H].
      destruct H as [H|[]]. subst s'.
      exists (W_range, c, o), (Dt q0 q1 q2 (q3 ++ [c]) mg skp).
      split; [weq0; rewrite F3; reflexivity | wdec].
    - (* W_done *)
      rewrite (Hwg eq_refl) in H. destruct H as [H|[]]. subst s'.
      exists (W_end, c, o), (Dt q0 q1 q2 q3 mg skp). split; [| wdec].
      weq0. cbn [wpend fst]. f_equal. lia.
    - (* W_end *)
      destruct H as [H|[]]. subst s'.
      exists (W_dead, c, o), (Dt q0 q1 q2 q3 mg skp). split; [weq | wdec].
    - (* W_dead *)
      destruct H.
  Qed.

  (* ---------------- the closer ---------------- *)

  Lemma fuel_closer : forall M ws g1 p D s',
    wf M ws g1 (Some p) D ->
    In s' (gstep PROG files fails (mk_sk M ws g1 (Some p) D)
             (length (mgor M :: map wgor ws ++ olist (option_map sgor g1)))) ->
    exists p', s' = mk_sk M ws g1 (Some p') D /\ cfuel (Some p') < cfuel (Some p).
  Proof.
    intros M ws g1 p D s' W H.
    rewrite mk_sk_closer in H. unfold SkelSim.raw, gstep in H. cbn [s_gors] in H.
    rewrite nth_error_mid in H.
    remember (mgor M :: map wgor ws ++ olist (option_map sgor g1)) as pre eqn:Epre.
    remember (wgof ws) as wg eqn:Ewg.
    destruct D as [q0 q1 q2 q3 mg skp].
    Ltac ceq := rewrite mk_sk_closer; unfold SkelSim.raw, SkelSim.mk_chans; subst; rewrite ?set_gor_mid; reflexivity.
    destruct p; gsimp H.
    - destruct (wg =? 0) eqn:Hz; [|destruct H]. destruct H as [H|[]]. subst s'.
      exists C_c1. split; [ceq | vm_compute; lia].
    - destruct H as [H|[]]. subst s'. exists C_c2. split; [ceq | vm_compute; lia].
    - destruct H as [H|[]]. subst s'. exists C_c3. split; [ceq | vm_compute; lia].
    - destruct H as [H|[]]. subst s'. exists C_end. split; [ceq | vm_compute; lia].
    - destruct H as [H|[]]. subst s'. exists C_dead. split; [ceq | vm_compute; lia].
    - destruct H.
  Qed.

  (* ---------------- the status updater ---------------- *)

  Lemma fuel_status : forall M ws x g2 D s',
    wf M ws (Some x) g2 D ->
    In s' (gstep PROG files fails (mk_sk M ws (Some x) g2 D) (length (mgor M :: map wgor ws))) ->
    exists x' D', s' = mk_sk M ws (Some x') g2 D' /\
      (sfuel (Some x') < sfuel (Some x) \/
       (pstep (absd M ws (Some x) g2 D) (absd M ws (Some x') g2 D') /\
        sfuel (Some x') <= sfuel (Some x) + 9)).
  Proof.
    intros M ws x g2 D s' W H.
    assert (H4 : has_c4 (fst (fst M)) = true).
    { apply has_g1_c4. symmetry. destruct W as [_ W2 _ _ _ _]. exact W2. }
    rewrite mk_sk_status in H. unfold SkelSim.raw, gstep in H. cbn [s_gors] in H.
    rewrite nth_error_mid in H.
    remember (mgor M :: map wgor ws) as pre eqn:Epre.
    remember (olist (option_map cgor g2)) as post eqn:Epost.
    remember (wgof ws) as wg eqn:Ewg.
    destruct D as [q0 q1 q2 q3 mg skp].
    destruct x as [[p c] o].
    Ltac seq0 := rewrite mk_sk_status; unfold SkelSim.raw, SkelSim.mk_chans; subst; rewrite ?set_gor_mid.
    Ltac seq := seq0; reflexivity.
    Ltac sdec := left; vm_compute; lia.
    destruct p; gsimp H.
    - destruct H as [H|[]]. subst s'.
      exists (S_forever, c, o), (Dt q0 q1 q2 q3 mg skp). split; [seq | sdec].
    - destruct H as [H|[]]. subst s'.
      exists (S_kforever, c, o), (Dt q0 q1 q2 q3 mg skp). split; [seq | sdec].
    - destruct H as [H|[]]. subst s'.
      exists (S_select, c, o), (Dt q0 q1 q2 q3 mg skp). split; [seq | sdec].
    - (* S_select *)
      apply in_app_or in H. destruct H as [H|H]; [|apply in_app_or in H; destruct H as [H|[]]].
      + destruct q2 as [|y r].
        * destruct (fl2 g2) eqn:F2; [|destruct H]. destruct H as [H|[]]. subst s'.
          exists (S_if, c, false), (Dt q0 q1 [] q3 mg skp). split; [seq0; rewrite F2; reflexivity | sdec].
        * destruct H as [H|[]]. subst s'.
          exists (S_if, y, true), (Dt q0 q1 r q3 mg skp). split; [seq | right; split].
          -- unfold SkelSim.absd. cbn [d_q0 d_q1 d_q2 d_q3 d_mg d_skp sabs length]. apply step_g_status.
          -- vm_compute. lia.
      + destruct q3 as [|y r].
        * destruct (fl3 g2) eqn:F3; [|destruct H]. destruct H as [H|[]]. subst s'.
          exists (S_if, c, false), (Dt q0 q1 q2 [] mg skp). split; [seq0; rewrite F3; reflexivity | sdec].
        * destruct H as [H|[]]. subst s'.
          exists (S_if, y, true), (Dt q0 q1 q2 r mg skp). split; [seq | right; split].
          -- unfold SkelSim.absd. cbn [d_q0 d_q1 d_q2 d_q3 d_mg d_skp sabs length]. apply step_g_progress.
          -- vm_compute. lia.
    - (* S_if *)
      destruct o.
      + destruct H as [H|[]]. subst s'.
        exists (S_kforever, c, true), (Dt q0 q1 q2 q3 mg skp). split; [seq | sdec].
      + rewrite H4 in H. cbn in H. destruct H as [H|[]]. subst s'.
        exists (S_dead, c, false), (Dt q0 q1 q2 q3 mg skp). split; [seq0; rewrite H4; reflexivity | sdec].
    - destruct H.
  Qed.

  (* ---------------- Initialize ---------------- *)

  Lemma fuel_main : forall M ws g1 g2 D s',
    wf M ws g1 g2 D ->
    In s' (gstep PROG files fails (mk_sk M ws g1 g2 D) 0) ->
    exists M' ws' g1' g2' D', s' = mk_sk M' ws' g1' g2' D' /\
      (phid M' ws' g1' g2' < phid M ws g1 g2 \/
       (pstep (absd M ws g1 g2 D) (absd M' ws' g1' g2' D') /\
        phid M' ws' g1' g2' <= phid M ws g1 g2 + 9)).
  Proof.
    intros M ws g1 g2 D s' W H.
    unfold SkelSim.mk_sk, gstep in H. cbn [s_gors nth_error] in H.
    remember (wgof ws) as wg eqn:Ewg.
    destruct W as [W1 W2 W3 W4 W5 W6].
    destruct D as [q0 q1 q2 q3 mg skp].
    destruct M as [[p c] o].
    cbn [fst] in W1, W2, W3.
    Ltac meq0 := unfold SkelSim.mk_sk, SkelSim.mk_chans; subst; rewrite ?set_gor_0.
    Ltac meq := meq0; reflexivity.
    Ltac mcalc := unfold phid, mfuel, gfuel; cbn [mgor mk_of mlive g_live g_ok g_k]; cbn.
    Ltac mdec := left; mcalc; lia.
    destruct p.
    - (* M_loop *)
      remember (map wgor ws ++ olist (option_map sgor g1) ++ olist (option_map cgor g2)) as post eqn:Epost.
      gsimp H. destruct H as [H|[]]. subst s'.
      exists (M_times w, c, o), ws, g1, g2, (Dt q0 q1 q2 q3 mg skp). split; [meq | mdec].
    - (* M_times *)
      remember (map wgor ws ++ olist (option_map sgor g1) ++ olist (option_map cgor g2)) as post eqn:Epost.
      destruct k as [|k]; gsimp H; destruct H as [H|[]]; subst s'.
      + exists (M_foreach, c, o), ws, g1, g2, (Dt q0 q1 q2 q3 mg skp). split; [meq | mdec].
      + exists (M_go k, c, o), ws, g1, g2, (Dt q0 q1 q2 q3 mg skp). split; [meq | mdec].
    - (* M_go *)
      destruct g1; [discriminate W2|]. destruct g2; [discriminate W3|].
      gsimp H. destruct H as [H|[]]. subst s'.
      exists (M_times k, c, o), (ws ++ [(W_start, 0, true)]), None, None, (Dt q0 q1 q2 q3 mg skp).
      cbn in W1. split.
      + meq0. cbn [option_map olist app]. rewrite !app_nil_r, map_app. cbn [map wgor wk_of wlive].
        f_equal. unfold SkelSim.wgof, pendings. rewrite map_app, list_sum_app, app_length.
        change (length [(W_start, 0, true)]) with 1.
        change (list_sum (map (fun x : wst => wpend (fst (fst x))) [(W_start, 0, true)])) with 1. lia.
      + left. unfold phid. rewrite wsum_snoc.
        change (wfuel (W_start, 0, true)) with 4.
        unfold mfuel, gfuel; cbn [mgor mk_of mlive g_live g_ok g_k]; cbn. lia.
    - (* M_foreach *)
      remember (map wgor ws ++ olist (option_map sgor g1) ++ olist (option_map cgor g2)) as post eqn:Epost.
      gsimp H. destruct H as [H|[]]. subst s'.
      exists (M_each files, c, o), ws, g1, g2, (Dt q0 q1 q2 q3 mg skp). split; [meq | mdec].
    - (* M_each *)
      remember (map wgor ws ++ olist (option_map sgor g1) ++ olist (option_map cgor g2)) as post eqn:Epost.
      destruct rest as [|f rest]; gsimp H; destruct H as [H|[]]; subst s'.
      + exists (M_close, c, o), ws, g1, g2, (Dt q0 q1 q2 q3 mg skp). split; [meq | mdec].
      + exists (M_send rest, f, o), ws, g1, g2, (Dt q0 q1 q2 q3 mg skp). split; [meq | mdec].
    - (* M_send *)
      remember (map wgor ws ++ olist (option_map sgor g1) ++ olist (option_map cgor g2)) as post eqn:Epost.
      gsimp H. destruct (length q0 <? n) eqn:Hlt; [|destruct H].
      destruct H as [H|[]]; subst s'.
      exists (M_each rest, c, o), ws, g1, g2, (Dt (q0 ++ [c]) q1 q2 q3 mg skp). split; [meq | mdec].
    - (* M_close *)
      remember (map wgor ws ++ olist (option_map sgor g1) ++ olist (option_map cgor g2)) as post eqn:Epost.
      gsimp H. destruct H as [H|[]]. subst s'.
      exists (M_make4, c, o), ws, g1, g2, (Dt q0 q1 q2 q3 mg skp). split; [meq | mdec].
    - (* M_make4 *)
      destruct g1; [discriminate W2|].
      remember (map wgor ws ++ olist (option_map sgor None) ++ olist (option_map cgor g2)) as post eqn:Epost.
      gsimp H. destruct H as [H|[]]. subst s'.
      exists (M_go1, c, o), ws, None, g2, (Dt q0 q1 q2 q3 mg skp). split; [meq | mdec].
    - (* M_go1: a visible step (start of the status updater); the fuel moves to the new goroutine *)
      destruct g1; [discriminate W2|]. destruct g2; [discriminate W3|].
      gsimp H. destruct H as [H|[]]. subst s'.
      exists (M_go2, c, o), ws, (Some (S_defer, 0, true)), None, (Dt q0 q1 q2 q3 mg skp). split.
      + meq0. cbn [option_map olist app]. rewrite <- !app_assoc. reflexivity.
      + right. split.
        * unfold SkelSim.absd. cbn. apply step_m_start_status.
        * mcalc. lia.
    - (* M_go2 *)
      destruct g2; [discriminate W3|].
      gsimp H. destruct H as [H|[]]. subst s'.
      exists (M_range, c, o), ws, g1, (Some C_wait), (Dt q0 q1 q2 q3 mg skp). split.
      + meq0. cbn [option_map olist app]. rewrite <- !app_assoc. reflexivity.
      + mdec.
    - (* M_range *)
      remember (map wgor ws ++ olist (option_map sgor g1) ++ olist (option_map cgor g2)) as post eqn:Epost.
      gsimp H. destruct H as [H|[]]. subst s'.
      exists (M_krange, c, o), ws, g1, g2, (Dt q0 q1 q2 q3 mg skp). split; [meq | mdec].
    - (* M_krange *)
      remember (map wgor ws ++ olist (option_map sgor g1) ++ olist (option_map cgor g2)) as post eqn:Epost.
      gsimp H. destruct q1 as [|f r].
      + destruct (fl1 g2) eqn:F1; [|destruct H]. destruct H as [H|[]]. subst s'.
        exists (M_join, c, o), ws, g1, g2, (Dt q0 [] q2 q3 mg skp).
        split; [meq0; rewrite F1; reflexivity | mdec].
      + destruct H as [H|[]]. subst s'.
        exists (M_hook, f, true), ws, g1, g2, (Dt q0 r q2 q3 (mg ++ [f]) skp). split; [meq | right; split].
        * unfold SkelSim.absd. cbn. apply step_m_collect.
        * mcalc. lia.
    - (* M_hook *)
      remember (map wgor ws ++ olist (option_map sgor g1) ++ olist (option_map cgor g2)) as post eqn:Epost.
      gsimp H. destruct H as [H|[]]. subst s'.
      exists (M_krange, c, o), ws, g1, g2, (Dt q0 q1 q2 q3 mg skp). split; [meq | mdec].
    - (* M_join *)
      remember (map wgor ws ++ olist (option_map sgor g1) ++ olist (option_map cgor g2)) as post eqn:Epost.
      gsimp H. destruct (sdead g1) eqn:Hd; [|destruct H]. destruct H as [H|[]]. subst s'.
      exists (M_ret, c, o), ws, g1, g2, (Dt q0 q1 q2 q3 mg skp).
      split; [meq0; rewrite Hd; reflexivity | mdec].
    - (* M_ret *)
      remember (map wgor ws ++ olist (option_map sgor g1) ++ olist (option_map cgor g2)) as post eqn:Epost.
      gsimp H. destruct H as [H|[]]. subst s'.
      exists (M_dead, c, o), ws, g1, g2, (Dt q0 q1 q2 q3 mg skp). split; [meq | mdec].
    - (* M_dead *)
      destruct H.
  Qed.

  (* ---------------- all goroutines ---------------- *)

  Lemma fuel_mk : forall M ws g1 g2 D s',
    wf M ws g1 g2 D ->
    In s' (sk_steps PROG files fails (mk_sk M ws g1 g2 D)) ->
    exists M' ws' g1' g2' D', s' = mk_sk M' ws' g1' g2' D' /\
      (phid M' ws' g1' g2' < phid M ws g1 g2 \/
       (pstep (absd M ws g1 g2 D) (absd M' ws' g1' g2' D') /\
        phid M' ws' g1' g2' <= phid M ws g1 g2 + 9)).
  Proof.
    intros M ws g1 g2 D s' W H.
    apply in_sk_steps in H. destruct H as [pre [g [post [E H]]]].
    unfold SkelSim.mk_sk in E. cbn [s_gors] in E.
    destruct (gors_cases _ _ _ _ _ _ _ E) as [Hp | [[l1 [x [l2 [Ews Hp]]]] | [[x [Eg Hp]] | [q [Eg Hp]]]]];
      subst pre.
    - apply fuel_main; assumption.
    - subst ws. destruct (fuel_worker _ _ _ _ _ _ _ _ W H) as [x' [D' [E1 E2]]].
      exists M, (l1 ++ x' :: l2), g1, g2, D'. split; [exact E1|].
      unfold phid. rewrite !wsum_mid. destruct E2 as [E2 | [E2 E3]]; [left; lia | right; split; [exact E2 | lia]].
    - subst g1. destruct (fuel_status _ _ _ _ _ _ W H) as [x' [D' [E1 E2]]].
      exists M, ws, (Some x'), g2, D'. split; [exact E1|].
      unfold phid. destruct E2 as [E2 | [E2 E3]]; [left; lia | right; split; [exact E2 | lia]].
    - subst g2. destruct (fuel_closer _ _ _ _ _ _ W H) as [q' [E1 E2]].
      exists M, ws, g1, (Some q'), D. split; [exact E1|].
      unfold phid. left. lia.
  Qed.

  Notation sreach_w := (SkelSim.sreach_w v files fails).
  Notation sstep_w := (SkelSim.sstep_w v files fails).
  Notation pre := (SkelSim.pre v files fails).
  Notation smeasure := (sk_measure_w w files).

  Lemma pre_fuel : forall j, j <= 8 -> sk_fuel w files (pre (S j)) < sk_fuel w files (pre j).
  Proof.
    intros j Hj.
    do 9 (destruct j as [|j]; [cbv -[Nat.mul Nat.add Nat.lt dec_val]; lia|]). lia.
  Qed.

  (* every step from a reachable configuration decreases the measure *)
  Theorem skel_variant_w : forall s s', sreach_w s -> sstep_w s s' -> smeasure s' < smeasure s.
  Proof.
    intros s s' Hr Hs.
    assert (Hm : measure (abs files w s') <= measure (abs files w s)).
    { destruct (skel_simulates_pool_w v w Hv files fails s s' Hr Hs) as [E|E].
      - rewrite E. lia.
      - apply step_measure in E. lia. }
    pose proof (sreach_Inv_w v w Hv files fails s Hr) as HI.
    unfold SkelSim.sstep_w in Hs. unfold sk_measure_w in *.
    destruct HI as [j Hj | M ws g1 g2 D W].
    - rewrite (pre_steps v files fails j Hj) in Hs. destruct Hs as [Hs|[]]. subst s'.
      pose proof (pre_fuel j Hj). lia.
    - destruct (fuel_mk _ _ _ _ _ _ W Hs) as [M' [ws' [g1' [g2' [D' [E1 E2]]]]]].
      subst s'. rewrite !abs_mk in *. rewrite !sk_fuel_mk.
      destruct E2 as [E2 | [E2 E3]]; [lia|].
      apply step_measure in E2. lia.
  Qed.

  (* closed form of the initial measure *)
  Lemma skel_measure_init_w : smeasure (sk_init PROG) = 142 * n + 17 * w + 172.
  Proof.
    unfold sk_measure_w. rewrite (skel_abs_init_w v w files fails), pool_measure_init.
    assert (E : sk_fuel w files (sk_init PROG) = 2 * n + 7 * w + 32).
    { cbv -[Nat.mul Nat.add dec_val length].
      change (S (6 + 0)) with 7. change (S (1 + 0)) with 2.
      generalize (length files). intros m. lia. }
    rewrite E. unfold file. lia.
  Qed.

  (* runs *)
  Inductive srun_w : nat -> sk -> sk -> Prop :=
  | srun_w_O : forall s, srun_w 0 s s
  | srun_w_S : forall k s1 s2 s3, srun_w k s1 s2 -> sstep_w s2 s3 -> srun_w (S k) s1 s3.

  Lemma srun_reach_w : forall k s s', srun_w k s s' -> sreach_w s -> sreach_w s'.
  Proof.
    intros k s s' H. induction H as [s | k s1 s2 s3 H IH Hs]; intros Hr; [exact Hr|].
    eapply SkelSim.sreach_step_w; [apply IH; exact Hr | exact Hs].
  Qed.

  Lemma srun_measure_w : forall k s s', srun_w k s s' -> sreach_w s -> k + smeasure s' <= smeasure s.
  Proof.
    intros k s s' H. induction H as [s | k s1 s2 s3 H IH Hs]; intros Hr; [lia|].
    specialize (IH Hr).
    pose proof (skel_variant_w s2 s3 (srun_reach_w _ _ _ H Hr) Hs). lia.
  Qed.

  (* every execution from the initial configuration has at most 142 n + 17 w + 172 steps *)
  Theorem skel_run_length_bound_w : forall k s, srun_w k (sk_init PROG) s -> k <= 142 * n + 17 * w + 172.
  Proof.
    intros k s H. pose proof (srun_measure_w k _ s H (SkelSim.sreach_init_w v files fails)) as Hm.
    rewrite skel_measure_init_w in Hm. lia.
  Qed.

  Theorem skel_no_infinite_run_w : forall tr : nat -> sk,
    tr 0 = sk_init PROG -> (forall i, sstep_w (tr i) (tr (S i))) -> False.
  Proof.
    intros tr H0 Hstep.
    assert (Hrun : forall k, srun_w k (tr 0) (tr k)).
    { induction k as [|k IH]; [constructor | econstructor; [exact IH | apply Hstep]]. }
    specialize (Hrun (S (142 * n + 17 * w + 172))). rewrite H0 in Hrun.
    apply skel_run_length_bound_w in Hrun. lia.
  Qed.

  (* the relation "s' is a successor of the reachable configuration s" is well founded *)
  Theorem skel_step_wf_w : forall s, sreach_w s -> Acc (fun s2 s1 => sreach_w s1 /\ sstep_w s1 s2) s.
  Proof.
    intros s _.
    assert (H : forall m s, smeasure s < m -> Acc (fun s2 s1 => sreach_w s1 /\ sstep_w s1 s2) s).
    { induction m as [|m IH]; intros s0 Hm; [lia|].
      constructor. intros s1 [Hr Hs]. apply IH.
      pose proof (skel_variant_w s0 s1 Hr Hs). lia. }
    apply (H (S (smeasure s))). lia.
  Qed.

End TermW.

(* ---------------------------------------------------------------------- *)
(* The extracted program: numWorkers = 5                                   *)
(* ---------------------------------------------------------------------- *)

Section Term.
  Variable files : list nat.
  Variable fails : bytes -> nat -> bool.

  Notation sreach := (SkelSim.sreach files fails).
  Notation sstep := (SkelSim.sstep files fails).

  Theorem skel_variant : forall s s', sreach s -> sstep s s' -> sk_measure files s' < sk_measure files s.
  Proof.
    intros s s' Hr Hs.
    exact (skel_variant_w "5" 5 eq_refl files fails s s' (sreach_5 files fails s Hr) Hs).
  Qed.

  Lemma skel_measure_init : sk_measure files (sk_init pool_program_modelled) = 142 * length files + 257.
  Proof.
    unfold sk_measure. change pool_program_modelled with (pool_prog_lit "5").
    rewrite (skel_measure_init_w "5" 5 files fails). lia.
  Qed.

  Inductive srun : nat -> sk -> sk -> Prop :=
  | srun_O : forall s, srun 0 s s
  | srun_S : forall k s1 s2 s3, srun k s1 s2 -> sstep s2 s3 -> srun (S k) s1 s3.

  Lemma srun_5 : forall k s s', srun k s s' -> srun_w "5" files fails k s s'.
  Proof.
    intros k s s' H. induction H as [s | k s1 s2 s3 H IH Hs]; [constructor|].
    econstructor; [exact IH | exact Hs].
  Qed.

  (* every execution of the program has at most 142 * length files + 257 steps, under any scheduler *)
  Theorem skel_run_length_bound : forall k s,
    srun k (sk_init pool_program_modelled) s -> k <= 142 * length files + 257.
  Proof.
    intros k s H. apply srun_5 in H.
    pose proof (skel_run_length_bound_w "5" 5 eq_refl files fails k s H). lia.
  Qed.

  Theorem skel_no_infinite_run : forall tr : nat -> sk,
    tr 0 = sk_init pool_program_modelled -> (forall i, sstep (tr i) (tr (S i))) -> False.
  Proof. exact (skel_no_infinite_run_w "5" 5 eq_refl files fails). Qed.

  Theorem skel_step_wf : forall s, sreach s -> Acc (fun s2 s1 => sreach s1 /\ sstep s1 s2) s.
  Proof.
    intros s _.
    assert (H : forall m s, sk_measure files s < m -> Acc (fun s2 s1 => sreach s1 /\ sstep s1 s2) s).
    { induction m as [|m IH]; intros s0 Hm; [lia|].
      constructor. intros s1 [Hr Hs]. apply IH.
      pose proof (skel_variant s0 s1 Hr Hs). lia. }
    apply (H (S (sk_measure files s))). lia.
  Qed.
End Term.

Print Assumptions skel_variant.
Print Assumptions skel_measure_init.
Print Assumptions skel_run_length_bound.
Print Assumptions skel_no_infinite_run.
Print Assumptions skel_step_wf.
Print Assumptions skel_variant_w.
Print Assumptions skel_measure_init_w.
Print Assumptions skel_run_length_bound_w.
