(* C07 — scan results are repeatable and independent of worker scheduling. *)
From CPF Require Import Base.Bytes Base.Skel Scan.Merge Scan.MergeFacts Scan.Pool Scan.PoolFacts Scan.PoolSkel Scan.SkelSem Scan.SkelAbs Scan.SkelSim Scan.SkelTerm Scan.SkelCompl.
From CPF.gen Require Import Tables.
From Coq Require Import List Permutation.
Import ListNotations.

(* (a) the merge: any two arrival orders of the same per-file graphs give the same entities and
   the same call links, provided no identity occurs in two per-file graphs (checked on every
   campaign project; before the repair D20 binary-expression identities violated it, see
   collect_order_matters) *)
Theorem C07_order_independent : forall (A E : Type) (ls ls' : list (lgraph A E)),
  keys_distinct A E ls -> Permutation ls ls' ->
  Permutation (fst (collect ls)) (fst (collect ls')) /\ Permutation (snd (collect ls)) (snd (collect ls')).
Proof. exact collect_order_independent. Qed.
Print Assumptions C07_order_independent.

(* (b) the worker-pool protocol of Initialize as a transition system, any number of files (0
   included), any number of workers, any set of unreadable files: no deadlock ... *)
Theorem C07_no_deadlock : forall files w readable s,
  reachable files w readable s -> main s <> Done -> exists s', step (length files) w readable s s'.
Proof. exact pool_progress. Qed.
Print Assumptions C07_no_deadlock.

(* ... every step decreases a natural-number measure: every run is finite under ANY scheduler *)
Theorem C07_terminates : forall (files : list file) w readable s s',
  step (length files) w readable s s' -> measure s' < measure s.
Proof. exact pool_variant. Qed.
Print Assumptions C07_terminates.

(* ... and at the end each readable file's graph has been merged exactly once *)
Theorem C07_delivers : forall files w readable s,
  1 <= w -> reachable files w readable s -> main s = Done ->
  Permutation (merged s) (filter readable files).
Proof. exact pool_delivers. Qed.
Print Assumptions C07_delivers.

(* ... once Initialize has returned the progress display has stopped for good, and nothing the caller
   can observe changes any more (before the repair "the progress display stops before the scan returns"
   the updater kept writing its clear-screen sequence into the caller's output) *)
Theorem C07_quiescent : forall files w readable s s',
  reachable files w readable s -> main s = Done ->
  star (length files) w readable s s' ->
  status s' = GExited /\ merged s' = merged s /\ main s' = Done.
Proof. exact pool_quiescent_forever. Qed.
Print Assumptions C07_quiescent.

(* (c) the transition system above is the one of the CURRENT source: the goroutines of graph.Initialize with
   their channel, wait-group and goroutine operations, as the translator extracts them from /repo on every
   run (gen/Tables.v), are statement for statement the program Scan/Pool.v models (Scan/PoolSkel.v) *)
Theorem C07_skeleton : pool_program = pool_program_modelled.
Proof. exact pool_program_matches. Qed.
Print Assumptions C07_skeleton.

(* (d) ... and the transition system is not only "the same program text": under a generic small-step semantics
   of goroutines, buffered channels, close, range, select, wait groups and deferred closes (Scan/SkelSem.v)
   every execution of the EXTRACTED program, for any list of files and any assignment of read / parse
   failures, is step for step an execution of the transition system above (silent steps aside) ... *)
Theorem C07_program_refines : forall (files : list nat) (fails : bytes -> nat -> bool) s s',
  sreach files fails s -> In s' (sk_steps pool_program files fails s) ->
  abs files 5 s' = abs files 5 s \/
  step (length files) 5 (SkelSim.readable fails) (abs files 5 s) (abs files 5 s').
Proof. exact skel_simulates_pool_extracted. Qed.
Print Assumptions C07_program_refines.

(* ... no execution sends on or closes a closed channel or drives the wait group below zero ... *)
Theorem C07_program_no_panic : forall (files : list nat) (fails : bytes -> nat -> bool) s,
  sreach files fails s -> s_panic s = false.
Proof. exact skel_no_panic. Qed.
Print Assumptions C07_program_no_panic.

(* ... and whenever no goroutine of the program can move, every goroutine has returned, the graphs merged are
   those of the readable files (each once), every file was merged or skipped, and the arrival order is one
   a five-place reorder buffer allows: whatever the scheduler did *)
Theorem C07_program_result : forall (files : list nat) (fails : bytes -> nat -> bool) s,
  sreach files fails s -> sk_steps pool_program_modelled files fails s = [] ->
  finished s = true /\
  Permutation (s_merged s) (filter (SkelSim.readable fails) files) /\
  Permutation files (s_merged s ++ s_skipped s) /\
  buffered 5 [] (filter (SkelSim.readable fails) files) (s_merged s).
Proof. exact skel_stuck_result. Qed.
Print Assumptions C07_program_result.

(* ... every step of the program decreases a natural-number measure (10 x the measure of the abstract state +
   the statements each goroutine still has before it): no execution is infinite, whatever the scheduler does,
   and none is longer than 142 n + 257 steps for n files *)
Theorem C07_program_terminates : forall (files : list nat) (fails : bytes -> nat -> bool) s s',
  sreach files fails s -> sstep files fails s s' -> sk_measure files s' < sk_measure files s.
Proof. exact skel_variant. Qed.
Print Assumptions C07_program_terminates.

Theorem C07_program_run_length : forall (files : list nat) (fails : bytes -> nat -> bool) k s,
  srun files fails k (sk_init pool_program_modelled) s -> k <= 142 * length files + 257.
Proof. exact skel_run_length_bound. Qed.
Print Assumptions C07_program_run_length.

(* ... and the transition system has nothing the program cannot do: its reachable states are exactly the
   abstractions of the program's reachable configurations, and each of its transitions is the image of a run
   of the program (per configuration this needs the status updater not to have committed to returning:
   SkelCompl.skel_completeness_counterexample is the machine-checked witness) *)
Theorem C07_program_image_exact : forall (files : list nat) (fails : bytes -> nat -> bool) a,
  reachable files 5 (SkelSim.readable fails) a <-> exists s, sreach files fails s /\ abs files 5 s = a.
Proof. exact skel_image_exact. Qed.
Print Assumptions C07_program_image_exact.

Theorem C07_program_covers : forall (files : list nat) (fails : bytes -> nat -> bool) a t,
  reachable files 5 (SkelSim.readable fails) a -> step (length files) 5 (SkelSim.readable fails) a t ->
  exists s s', sreach files fails s /\ sruns files fails s s' /\ abs files 5 s = a /\ abs files 5 s' = t.
Proof. exact skel_covers_transitions. Qed.
Print Assumptions C07_program_covers.
