(* C08 — what is reported for a file depends only on that file. *)
From CPF Require Import Base.Bytes Scan.Cst Scan.Build Scan.BuildFacts Scan.Merge Scan.MergeFacts.
From CPF Require Import Base.Skel Scan.PoolSkel Scan.SkelSem Scan.SkelSim.
From CPF.gen Require Import Tables.
From Coq Require Import List Permutation.

(* the per-file graph is a function of (path, bytes, tree) alone: build_file takes nothing else *)
(* in the project graph, the entities and links of one file are exactly its own per-file graph,
   whatever the other per-file graphs are (absent, copies, malformed, ...) and in whatever order
   they arrive *)
Theorem C08_isolation : forall (A E : Type) (ls1 ls2 : list (lgraph A E)) (l : lgraph A E),
  keys_distinct A E (ls1 ++ l :: ls2) ->
  exists others_n others_e,
    Permutation (fst (collect (ls1 ++ l :: ls2))) (fst l ++ others_n)
    /\ Permutation (snd (collect (ls1 ++ l :: ls2))) (snd l ++ others_e)
    /\ others_n = concat (List.map fst (ls1 ++ ls2)) /\ others_e = concat (List.map snd (ls1 ++ ls2)).
Proof. exact collect_isolation. Qed.
Print Assumptions C08_isolation.

(* file discovery: exactly the regular files with extension .java below readable directories; an
   unreadable directory contributes nothing and hides nothing else (walk_in is compositional) *)
Theorem C08_discovery : forall n dir,
  walk_in dir n = filter (fun p => bytes_eqb (path_ext p) ".java"%bs) (files_in dir n).
Proof. exact walk_java_only. Qed.
Print Assumptions C08_discovery.

Theorem C08_unreadable_dir_hides_only_itself : forall dir name kids before after,
  flat_map (walk_in dir) (before ++ FDir name false kids :: after)
  = flat_map (walk_in dir) (before ++ after).
Proof.
  intros. rewrite !flat_map_app. cbn [flat_map walk_in app]. reflexivity.
Qed.
Print Assumptions C08_unreadable_dir_hides_only_itself.

(* every edge of a per-file graph joins two entities created from that file's tree: links never
   cross files *)

(* the worker loop that gives every file its own parser state, local graph and error exits is the one
   Scan/Pool.v and the per-file model describe: one `range` over the file channel, the hook, readFile and
   ParseCtx as the only error exits (each a plain `continue`), one call of buildGraphFromAST, then the sends
   -- nothing else between them (regenerated from graph.Initialize on every run, Scan/PoolSkel.v) *)
Theorem C08_worker_loop : pool_program = pool_program_modelled.
Proof. exact pool_program_matches. Qed.
Print Assumptions C08_worker_loop.

(* ... and under the generic channel semantics of that program (Scan/SkelSem.v, Scan/SkelSim.v) whether a file's
   graph reaches the collector depends on that file alone: in every finished execution, whatever the scheduler did
   and whichever OTHER files could not be read or parsed, the graphs merged are those of the files that are
   themselves readable, each exactly once *)
Theorem C08_program_failures_isolated : forall (files : list nat) (fails : bytes -> nat -> bool) s,
  NoDup files -> sreach files fails s -> finished s = true ->
  NoDup (s_merged s) /\ (forall f, In f (s_merged s) <-> In f files /\ SkelSim.readable fails f = true).
Proof. exact skel_finished_exactly_once. Qed.
Print Assumptions C08_program_failures_isolated.
