(* C04 — reported file, line and snippet always denote real source text.
   Theorem-only file: statements closed by [exact]; the model is Scan/Build.v (tied to
   graph/construct.go by the correspondence check), cst_wfb is the checked assumption about
   tree-sitter. *)
From CPF Require Import Base.Bytes Base.BytesFacts Scan.Cst Scan.Build Scan.BuildFacts Engine.Render Engine.RenderFacts.

(* every entity produced from ANY bytes and ANY well-formed tree over them: the reported file is
   the scanned path; the snippet occurs in the file, starting on the reported 1-based line *)
Theorem C04_location : forall path src t g k e,
  cst_wfb src t = true -> build_file path src t = Ok g -> In (k, e) (g_nodes g) ->
  n_file e = path
  /\ exists pre post, src = pre ++ n_snippet e ++ post /\ n_line e = (count_nl pre + 1)%N.
Proof. exact build_file_location. Qed.
Print Assumptions C04_location.

(* line by line: the i-th line of the snippet is (part of) line [line + i] of the file; the lines
   strictly inside a multi-line snippet are whole file lines *)
Theorem C04_lines : forall pre snip post i s_i,
  nth_error (split_on nl snip) i = Some s_i ->
  exists L a b,
    nth_error (split_on nl (pre ++ snip ++ post)) (N.to_nat (count_nl pre) + i) = Some L
    /\ L = a ++ s_i ++ b
    /\ (0 < i -> a = [])
    /\ (i < N.to_nat (count_nl snip) -> b = []).
Proof. exact snippet_lines. Qed.
Print Assumptions C04_lines.

(* non-vacuity: a two-line snippet "c\nd" inside the file "a\nbc\nde\nf" starts on line 2 *)
Example C04_example :
  let src := ([x61; nl; x62; x63; nl; x64; x65; nl; x66])%list in
  let snip := ([x63; nl; x64])%list in
  exists pre post, src = pre ++ snip ++ post /\ (count_nl pre + 1)%N = 2%N
  /\ nth_error (split_on nl src) 1 = Some [x62; x63] /\ nth_error (split_on nl src) 2 = Some [x64; x65].
Proof. exists [x61; nl; x62], [x65; nl; x66]. repeat split. Qed.

(* text mode (cmd/query.go: the numbered snippet lines): the i-th line of an entity's snippet is printed
   next to the number [line + i], and that text is (part of) line number [line + i] of the scanned file;
   lines strictly inside the snippet are whole file lines.  [numbered_lines] is the rendering compared
   byte for byte with the real text report (Engine/Render.v). *)
Theorem C04_text_numbering : forall path src t g k e i s_i,
  cst_wfb src t = true -> build_file path src t = Ok g -> In (k, e) (g_nodes g) ->
  nth_error (split_on nl (n_snippet e)) i = Some s_i ->
  nth_error (numbered_lines e) i = Some (numbered (n_line e + N.of_nat i) s_i)
  /\ exists L a b,
       nth_error (split_on nl src) (N.to_nat (n_line e + N.of_nat i) - 1) = Some L
       /\ L = a ++ s_i ++ b
       /\ (0 < i -> a = [])
       /\ (i < N.to_nat (count_nl (n_snippet e)) -> b = []).
Proof. exact text_numbering. Qed.
Print Assumptions C04_text_numbering.
