(* C10 — any query string gets results or a diagnostic, never a crash.
   [process_query] is a total function into {Answer, SyntaxError}: the model of the repaired code
   has no abort site left (the unchecked bool assertion, the nil argument list, the out-of-range
   parameter index and log.Fatal were repaired).  The theorems record what the model predicts for
   every string; the outcome-class correspondence (ok / diagnostic / panic / process exit) on
   grammar-derived, mutated and random strings is what ties the prediction to the binary. *)
From CPF Require Import Lang.Lexer Lang.Parser Engine.Process Engine.ProcessFacts.

Theorem C10_total : forall s g, (exists a, process_query s g = Answer a) \/ process_query s g = SyntaxError.
Proof. intros s g. destruct (process_query s g) as [a|]; [left; eexists; reflexivity|right; reflexivity]. Qed.
Print Assumptions C10_total.

(* a rejected string produces no results *)
Theorem C10_reject_no_results : forall s g, parse_query s = None -> process_query s g = SyntaxError.
Proof. intros s g H. unfold process_query. rewrite H. reflexivity. Qed.
Print Assumptions C10_reject_no_results.

(* the console keeps answering: every complete line before :quit / end of input has its answer,
   independently of chunking *)
Theorem C10_console : forall g chunks, console_session g chunks = console_session g [concat chunks].
Proof. exact console_session_chunking. Qed.
Print Assumptions C10_console.
