(* C11 — a string is accepted exactly when it is a sentence of the documented grammar, and the
   structure recovered from an accepted query is the structure written.
   Lang/Lexer.v models ANTLR's lexer for Query.g4 (maximal munch, first rule wins) preceded by
   normalizeWhitespace; Lang/Parser.v is a recursive-descent recogniser for the token grammar;
   Lang/Ast.v's printer [tokens_of_query] generates the sentences of the grammar from ASTs that
   mirror Query.g4 rule by rule.  That ANTLR's generated recogniser accepts the same language is
   checked three-way (implementation / this parser / an Earley recogniser over Query.g4). *)
From CPF Require Import Lang.Lexer Lang.LexerFacts Lang.Ast Lang.Parser Lang.ParserFacts.

(* accepted token sequences are exactly the printed forms of well-shaped ASTs, and the AST
   returned is the one printed: nothing else is accepted, nothing grammatical is rejected *)
Theorem C11_accept_iff : forall ts q,
  parse_tokens ts = Some q <-> aquery_shapeb q = true /\ tokens_of_query q = ts.
Proof. exact parse_tokens_iff. Qed.
Print Assumptions C11_accept_iff.

(* from text: any well-formed query, in any layout that keeps its tokens apart, is accepted and
   the entities/aliases (FROM order), SELECT items (kind, order) and predicates (name, typed
   parameters, body) recovered are exactly those written — they are fields of q *)
Theorem C11_structure : forall q lay,
  aquery_wfb q = true -> separable (tokens_of_query q) lay = true ->
  parse_query (render (tokens_of_query q) lay) = Some q.
Proof. exact C11_roundtrip. Qed.
Print Assumptions C11_structure.

(* whatever text is accepted lexes to the printed form of the returned AST *)
Theorem C11_accepted_is_sentence : forall s q,
  parse_query s = Some q -> lex_query s = Some (tokens_of_query q).
Proof. exact parse_query_tokens. Qed.
Print Assumptions C11_accepted_is_sentence.

(* two different well-shaped ASTs never print to the same tokens: the structure is unambiguous *)
Theorem C11_unambiguous : forall q1 q2,
  aquery_shapeb q1 = true -> aquery_shapeb q2 = true ->
  tokens_of_query q1 = tokens_of_query q2 -> q1 = q2.
Proof. exact tokens_of_query_inj. Qed.
Print Assumptions C11_unambiguous.
