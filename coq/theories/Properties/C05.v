(* C05 — class, method and variable attributes mirror the source declaration.
   "What is written" is specified through tree-sitter-java's field names and node shapes
   (Scan/Decode.v: *_shape predicates, *_spec functions — never child indices); the builder model
   (Scan/Build.v) reads some attributes by child index or child type.  For every declaration
   node of the stated shape the two coincide.  The shape predicates are evaluated on every tree of
   the generated family (fraction satisfied is reported) and the specification functions are
   compared with the generator's ground truth. *)
From CPF Require Import Base.Bytes Scan.Cst Scan.Build Scan.Decode Scan.DecodeFacts.
Open Scope bs_scope.

Theorem C05_method : forall src file prev n,
  method_shape n = true ->
  exists e, entities_of src file prev n = Ok [e]
    /\ n_type e = "method_declaration"
    /\ n_name e = method_name_spec src n
    /\ n_ret e = method_ret_spec src n
    /\ n_mod e = visibility_spec src n
    /\ n_argt e = List.map fst (method_params_spec src n)
    /\ n_argv e = List.map snd (method_params_spec src n)
    /\ n_throws e = method_throws_spec src n
    /\ n_annot e = annotations_spec src n
    /\ n_doc e = decl_javadoc src prev.
Proof. exact method_decoded. Qed.
Print Assumptions C05_method.

Theorem C05_class : forall src file prev n,
  class_shape n = true ->
  exists e, entities_of src file prev n = Ok [e]
    /\ n_type e = "class_declaration"
    /\ n_name e = class_name_spec src n
    /\ n_mod e = visibility_spec src n
    /\ n_super e = class_super_spec src n
    /\ n_iface e = class_ifaces_spec src n
    /\ n_annot e = annotations_spec src n
    /\ n_doc e = decl_javadoc src prev.
Proof. exact class_decoded. Qed.
Print Assumptions C05_class.

Theorem C05_variable : forall src file prev n,
  var_shape n = true ->
  exists e, entities_of src file prev n = Ok [e]
    /\ n_type e = "variable_declaration"
    /\ n_name e = var_name_spec src n
    /\ n_dtype e = var_type_spec src n
    /\ n_value e = var_value_spec src n
    /\ n_scope e = var_scope_spec n
    /\ n_mod e = visibility_spec src n.
Proof. exact var_decoded. Qed.
Print Assumptions C05_variable.

(* the visibility reported is the first of public/private/protected among the modifier words *)
Theorem C05_visibility : forall ws, Forall word ws -> extract_visibility (join " " ws) = first_visibility ws.
Proof. exact extract_visibility_words. Qed.
Print Assumptions C05_visibility.
