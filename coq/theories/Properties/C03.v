(* C03 — every occurrence of a supported construct is represented exactly once, nothing else is.
   Model: Scan/Build.v (tied to graph/construct.go by the correspondence check on every CST). *)
From CPF Require Import Base.Bytes Base.BytesFacts Scan.Cst Scan.Build Scan.BuildFacts.
Open Scope bs_scope.

(* The traversal creates, for the nodes of the tree in pre-order, exactly the entities their CST
   types stand for (kinds_of: one per supported construct, two for a binary expression with a
   known operator, none for anything else) — no occurrence is skipped, nothing is invented —
   and every one of them is derived from its node (file, text, line).  When the identities of
   these entities are pairwise distinct, the graph holds exactly them, once each. *)
Theorem C03_census : forall path src t g,
  build_file path src t = Ok g ->
  exists es,
    census src path None t = Ok es
    /\ List.map n_type es = flat_map (kinds_of src) (cst_nodes t)
    /\ Forall (fun e => exists c, In c (cst_nodes t) /\ derived src path c e) es
    /\ (NoDup (List.map n_idpre es) -> Forall2 same_but_access (List.map snd (g_nodes g)) es).
Proof.
  intros path src t g Hb. destruct (build_file_entities _ _ _ _ Hb) as [es [Ec [g0 [Hg0 HF]]]].
  exists es. split; [exact Ec|]. split; [eapply census_kinds; exact Ec|].
  split; [eapply census_derived; exact Ec|].
  intro Hnd. rewrite (insert_all_fresh es [] Hnd) in Hg0. cbn [app] in Hg0.
  assert (Hs : List.map snd (g_nodes g0) = es).
  { rewrite Hg0. rewrite map_map. cbn [snd]. apply map_id. }
  rewrite <- Hs. clear - HF. induction HF as [|x y l1 l2 [_ Hxy] _ IH]; constructor; assumption.
Qed.
Print Assumptions C03_census.

(* Without the side condition the statement is false of the (faithful) model: two occurrences of
   `a>b` in one file share the identity "comp_expression<file>NUL<text>" and the later insert
   overwrites the earlier.  (Known finding D19: pinned by TestBuildGraphFromAST.)
   The tree below is the CST of   x(a>b,a>b)   reduced to its binary expressions. *)
Definition c03_leaf (ty : bytes) (f : option bytes) (sb eb : N) : cst := Cst ty true false f sb eb 0 sb [].
Definition c03_bin (sb : N) : cst :=
  Cst "binary_expression" true false None sb (sb + 3) 0 sb
    [c03_leaf "identifier" (Some "left") sb (sb + 1);
     Cst ">" false false (Some "operator") (sb + 1) (sb + 2) 0 (sb + 1) [];
     c03_leaf "identifier" (Some "right") (sb + 2) (sb + 3)].
Definition c03_tree : cst := Cst "argument_list" true false None 1 10 0 1 [c03_bin 2; c03_bin 6].
Definition c03_src : bytes := "x(a>b,a>b)".

Theorem C03_census_refuted :
  exists g es, build_file "A.java" c03_src c03_tree = Ok g
            /\ census c03_src "A.java" None c03_tree = Ok es
            /\ cst_wfb c03_src c03_tree = true
            /\ length es = 4 /\ length (g_nodes g) = 2.
Proof. eexists. eexists. repeat split; vm_compute; reflexivity. Qed.
Print Assumptions C03_census_refuted.
