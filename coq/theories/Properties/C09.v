(* C09 — any file content can be scanned without crashing; work is at most quadratic.
   tree-sitter's own parser (C code) is outside the model: it enters as the tree. *)
From CPF Require Import Base.Bytes Base.BytesFacts Scan.Cst Scan.Build Scan.BuildFacts.
From CPF Require Import Base.Skel Scan.PoolSkel.
From CPF.gen Require Import Tables.

(* Crash part: the builder's only abort sites are the unchecked dereferences that shape_okb lists
   (assert/yield child 1; binary left/right/operator; class name; first child of each element of an
   `argument_list`-named field).  For ANY path, ANY bytes and ANY tree that has these children, a
   graph is produced.  The harness evaluates shape_okb on every tree tree-sitter yields for
   malformed input and runs the real builder where it is false. *)
Theorem C09_total : forall path src t,
  shape_okb t = true -> exists g, build_file path src t = Ok g.
Proof. exact build_file_total. Qed.
Print Assumptions C09_total.

(* ... and whatever is produced satisfies the location guarantee (C04) *)
Theorem C09_location : forall path src t g k e,
  cst_wfb src t = true -> build_file path src t = Ok g -> In (k, e) (g_nodes g) ->
  n_file e = path
  /\ exists pre post, src = pre ++ n_snippet e ++ post /\ n_line e = (count_nl pre + 1)%N.
Proof. exact build_file_location. Qed.
Print Assumptions C09_location.

(* Cost part: visits + bytes copied + the (single) declaration/call matching pass are bounded by
   8 (|tree| + |file|)^2 *)
Theorem C09_quadratic : forall path src t g,
  cst_wfb src t = true -> build_file path src t = Ok g ->
  work t g <= 8 * (cst_size t + length src) * (cst_size t + length src).
Proof. exact build_file_work. Qed.
Print Assumptions C09_quadratic.

(* what surrounds the builder in a worker (the parser's configuration and the two error exits) is the loop the
   model describes: nothing but readFile / ParseCtx can skip a file, nothing else is called on the parser
   between files (regenerated from graph.Initialize on every run, Scan/PoolSkel.v) *)
Theorem C09_worker_loop : pool_program = pool_program_modelled.
Proof. exact pool_program_matches. Qed.
Print Assumptions C09_worker_loop.
