(* C02 — no spurious or duplicated matches. *)
From CPF Require Import Engine.Eval Engine.EvalFacts Engine.Query Engine.QueryFacts.
From Coq Require Import ZArith.

(* every reported combination consists of entities of the graph, of the FROM kinds in FROM order,
   and makes the condition true *)
Theorem C02_sound : forall q g t,
  In t (results q g) ->
  Forall2 (fun n ka => n_type n = fst ka /\ In n g) t (q_from q) /\ accepted q t = Accept.
Proof.
  intros q g t H. apply results_sound in H as [Hc Ha]. split; [apply candidates_kinds; exact Hc|exact Ha].
Qed.
Print Assumptions C02_sound.

(* ... true in the sense of the specification *)
Theorem C02_sound_spec : forall q g,
  wf_query q = true ->
  (forall t, In t (candidates q g) -> spec_accepted q t <> Unknown /\ static_ok q t) ->
  results q g = spec_results q g.
Proof. exact results_refine_spec. Qed.
Print Assumptions C02_sound_spec.

(* each qualifying combination exactly once (entities of a graph are pairwise distinct) *)
Theorem C02_nodup : forall q g, NoDup g -> NoDup (results q g).
Proof. exact results_nodup. Qed.
Print Assumptions C02_nodup.

(* without WHERE: exactly the cross product of the requested kinds, |k1| * |k2| * ... combinations *)
Theorem C02_cross_product : forall q g,
  q_where q = None ->
  results q g = candidates q g
  /\ length (candidates q g) = fold_right (fun '(k, _) acc => length (nodes_of_kind g k) * acc) 1 (q_from q)
  /\ (forall t, In t (candidates q g) <-> Forall2 (fun n ka => n_type n = fst ka /\ In n g) t (q_from q)).
Proof.
  intros q g H. split; [apply results_no_where; exact H|]. split; [apply candidates_count|].
  intro t. apply candidates_iff.
Qed.
Print Assumptions C02_cross_product.

(* the evaluator model the statements above are about never leaves the range of expr-lang's 64-bit integers: at the
   border (a literal beyond it, a sum or product or negation that would wrap around in Go) it answers OutOfFragment,
   and such queries are excluded by the hypotheses instead of being judged by arithmetic the engine does not do *)
Theorem C02_integers_stay_64bit : forall env e z, eval env e = Val (VI z) -> in_int64 z = true.
Proof. exact eval_int_range. Qed.
Print Assumptions C02_integers_stay_64bit.
