(* C19 — every entity kind the scanner produces can be queried.
   Entirely over coq/gen/Tables.v, which the translator regenerates from graph/construct.go and
   graph/query.go on every run, so these finite statements are re-checked against the source. *)
From Coq Require Import Arith.
From CPF Require Import Base.Bytes Base.BytesFacts gen.Tables.
Open Scope bs_scope.

Definition lookup {V} (k : bytes) (m : list (bytes * V)) : option V :=
  match find (fun '(k', _) => bytes_eqb k k') m with Some (_, v) => Some v | None => None end.

(* kind k is bindable: generateProxyEnv has a `case k:` that rebinds a variable to the alias, that
   variable keys an accessor table in the env literal, the table offers toString (what a bare
   alias in SELECT evaluates) and at least one more accessor to filter on; and the variable's
   default key is the kind itself (so an un-aliased use sees the same table). *)
Definition bindableb (k : bytes) : bool :=
  match lookup k engine_kind_var with
  | Some v =>
      match lookup v engine_env_table, lookup v engine_var_default with
      | Some accs, Some d =>
          existsb (bytes_eqb "toString") accs && Nat.leb 2 (length accs) && bytes_eqb d k
      | _, _ => false
      end
  | None => false
  end.

Lemma vocab_all : forallb bindableb scanner_kinds = true.
Proof. vm_compute. reflexivity. Qed.

Theorem C19_vocab : forall k, In k scanner_kinds -> bindableb k = true.
Proof. intros k Hk. exact (proj1 (forallb_forall bindableb scanner_kinds) vocab_all k Hk). Qed.
Print Assumptions C19_vocab.

(* the alias variables are pairwise distinct, so binding one kind never rebinds another's table *)
Lemma vars_nodup : forallb (fun '(k, v) =>
    Nat.eqb (length (filter (fun '(_, v') => bytes_eqb v v') engine_kind_var)) 1) engine_kind_var = true.
Proof. vm_compute. reflexivity. Qed.

Theorem C19_distinct_bindings : forall k v, In (k, v) engine_kind_var ->
  length (filter (fun '(_, v') => bytes_eqb v v') engine_kind_var) = 1.
Proof.
  intros k v H. pose proof (proj1 (forallb_forall _ _) vars_nodup (k, v) H) as E.
  cbn beta iota in E. apply Nat.eqb_eq in E. exact E.
Qed.
Print Assumptions C19_distinct_bindings.

(* every operator-specific kind of the scanner's operator table is among the produced kinds *)
Theorem C19_binop_kinds : forall ops idp t, In (ops, idp, t) binop_table -> In t scanner_kinds.
Proof.
  assert (H : forallb (fun '(_, _, t) => existsb (bytes_eqb t) scanner_kinds) binop_table = true)
    by (vm_compute; reflexivity).
  intros ops idp t Hin. pose proof (proj1 (forallb_forall _ _) H _ Hin) as E. cbn beta iota in E.
  apply existsb_exists in E as [x [Hx Ex]]. apply bytes_eqb_true in Ex. subst. exact Hx.
Qed.
Print Assumptions C19_binop_kinds.
