(* C13 — predicates and aliases are transparent abstractions. *)
From CPF Require Import Engine.Query Engine.QueryFacts.

(* a predicate call means its body with the formal parameters bound to the argument entities,
   or to the argument values when the arguments are literals (seval; [env] is the list of bound
   formals, [R] relates it to the substitution), and the implementation's expansion by substitution computes exactly that: this is
   "replacing a call by its body with the arguments substituted does not change the result",
   for any identifiers (the substitution is on the AST, identifiers that contain one another
   cannot interfere) *)
Theorem C13_inline : forall d decls active env0,
  (forall decl, In decl decls -> skeleton (pd_body decl) = true) ->
  forall e sub env, skeleton e = true -> R env0 sub env ->
  forall r, seval d decls active env0 env e = r -> r <> OutOfFragment ->
  eval env0 (inline d decls active sub e) = r.
Proof. exact inline_seval. Qed.
Print Assumptions C13_inline.

(* the text-level expansion (what ExpandedCondition emits) is the print of the AST-level one *)
Theorem C13_expansion_text : forall d decls active e tsub sub,
  tsub_of sub = tsub ->
  join " "%bs (emit d decls active tsub e) = join " "%bs (xprint (inline d decls active sub e)).
Proof. exact emit_inline. Qed.
Print Assumptions C13_expansion_text.
