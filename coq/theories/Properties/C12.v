(* C12 — boolean connectives in WHERE behave as set operations on results.
   Stated on the specification semantics (transported to the implementation model by
   C02_sound_spec).  [total q g A]: A evaluates to a boolean on every candidate — a condition that
   fails to evaluate is a diagnostic case (C10), not a truth value; spec_or_needs_total shows the
   hypothesis is not gratuitous. *)
From CPF Require Import Engine.Query Engine.QueryFacts.

Theorem C12_and : forall q g A B t,
  In t (spec_results (with_where q (Some (EBin BAnd A B))) g) <->
  In t (spec_results (with_where q (Some A)) g) /\ In t (spec_results (with_where q (Some B)) g).
Proof. exact spec_and. Qed.
Print Assumptions C12_and.

Theorem C12_or : forall q g A B t,
  total q g A ->
  (In t (spec_results (with_where q (Some (EBin BOr A B))) g) <->
   In t (spec_results (with_where q (Some A)) g) \/ In t (spec_results (with_where q (Some B)) g)).
Proof. exact spec_or. Qed.
Print Assumptions C12_or.

Theorem C12_not : forall q g A t,
  total q g A ->
  (In t (spec_results (with_where q (Some (EUn UNot A))) g) <->
   In t (candidates (with_where q None) g) /\ ~ In t (spec_results (with_where q (Some A)) g)).
Proof. exact spec_not. Qed.
Print Assumptions C12_not.

Theorem C12_paren : forall q g A,
  spec_results (with_where q (Some (EParen A))) g = spec_results (with_where q (Some A)) g.
Proof. exact spec_paren. Qed.
Print Assumptions C12_paren.

(* logically equivalent conditions return identical results *)
Theorem C12_equiv : forall q g A B,
  (forall t, In t (candidates q g) -> sv q t A = sv q t B) ->
  spec_results (with_where q (Some A)) g = spec_results (with_where q (Some B)) g.
Proof. exact spec_equiv. Qed.
Print Assumptions C12_equiv.

Theorem C12_de_morgan : forall q g A B,
  spec_results (with_where q (Some (EUn UNot (EBin BAnd A B)))) g
  = spec_results (with_where q (Some (EBin BOr (EUn UNot A) (EUn UNot B)))) g
  /\ spec_results (with_where q (Some (EUn UNot (EBin BOr A B)))) g
     = spec_results (with_where q (Some (EBin BAnd (EUn UNot A) (EUn UNot B)))) g.
Proof. intros. split; [apply spec_de_morgan_and|apply spec_de_morgan_or]. Qed.
Print Assumptions C12_de_morgan.

Theorem C12_double_negation : forall q g A,
  spec_results (with_where q (Some (EUn UNot (EUn UNot A)))) g = spec_results (with_where q (Some A)) g.
Proof. exact spec_not_not. Qed.
Print Assumptions C12_double_negation.
