(* C16 — queries on a loaded project do not interfere with one another.
   The model of the repaired code threads no state through a query (Env.GetDoc no longer stores
   into the node), so these hold by construction of [step]; that the IMPLEMENTATION is state-free
   is what the history correspondence (sequences of queries on one loaded graph, graph dumped
   before and after) checks.  The console theorem has real content: buffered input persists. *)
From CPF Require Import Engine.Process Engine.ProcessFacts.

Theorem C16_graph_unchanged : forall g hist, run_history g hist = g.
Proof. exact history_graph. Qed.
Print Assumptions C16_graph_unchanged.

Theorem C16_history : forall g hist s, snd (step (run_history g hist) s) = snd (step g s).
Proof. exact history_answer. Qed.
Print Assumptions C16_history.

(* the console answers the complete lines of its input in order, each with the stand-alone answer,
   however the bytes are delivered (one write, byte-at-a-time, anything in between) *)
Theorem C16_console_chunking : forall g chunks,
  console_session g chunks = console_session g [concat chunks].
Proof. exact console_session_chunking. Qed.
Print Assumptions C16_console_chunking.
