(* C17 — CI reports conserve per-rule findings and survive a bad rule.
   Cli/Ci.v models the ci loop as a map over rule texts; that the real command is such a map (no
   state carried between rules, no abort on a failing rule) is what the campaign checks against
   real `pathfinder ci` runs. *)
From CPF Require Import Base.Bytes Cli.Rules Cli.Ci Cli.CiFacts Engine.Process.
Open Scope bs_scope.

(* the entry of each rule is its extracted query, its metadata and the stand-alone result *)
Theorem C17_json_conserves : forall rules g,
  ci_run rules g = List.map (fun text => {| e_rule := parse_ci text;
                                            e_outcome := process_query (r_query (parse_ci text)) g |}) rules.
Proof. exact ci_run_conserves. Qed.
Print Assumptions C17_json_conserves.

(* a failing rule changes nothing about the entries of the others *)
Theorem C17_isolation : forall rs1 bad rs2 g,
  ci_run (rs1 ++ bad :: rs2) g = ci_run rs1 g ++ ci_run [bad] g ++ ci_run rs2 g.
Proof. exact ci_isolation. Qed.
Print Assumptions C17_isolation.

(* SARIF: one result per finding with the finding's file and line, the rule's id, its lower-cased
   severity as level and its description as message *)
Theorem C17_sarif_fields : forall e s,
  In s (sarif_of_entry e) ->
  s_rule s = r_id (e_rule e) /\ s_level s = to_lower (r_severity (e_rule e)) /\
  s_message s = r_desc (e_rule e) /\
  exists n, In n (findings (e_outcome e)) /\ s_file s = n_file n /\ s_line s = n_line n.
Proof. exact sarif_fields. Qed.
Print Assumptions C17_sarif_fields.

Theorem C17_sarif_one_per_finding : forall e, length (sarif_of_entry e) = length (findings (e_outcome e)).
Proof. exact sarif_length. Qed.
Print Assumptions C17_sarif_one_per_finding.

Theorem C17_sarif_bad_rule : forall rs1 bad rs2 g,
  process_query (r_query (parse_ci bad)) g = SyntaxError ->
  ci_sarif (rs1 ++ bad :: rs2) g = ci_sarif (rs1 ++ rs2) g.
Proof. exact sarif_bad_rule. Qed.
Print Assumptions C17_sarif_bad_rule.

Theorem C17_placement : forall ws f,
  report_path true ws f = ws ++ "/" ++ f /\ report_path false ws f = f.
Proof. exact report_path_spec. Qed.
Print Assumptions C17_placement.
