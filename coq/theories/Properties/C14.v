(* C14 — a query's meaning depends only on its token sequence. *)
From CPF Require Import Lang.Lexer Lang.LexerFacts Lang.Ast Lang.Parser Lang.ParserFacts
  Engine.Process Engine.ProcessFacts.

(* any two layouts (spaces, tabs, CR, LF, nothing where tokens may touch) of the same tokens lex
   to those tokens ... *)
Theorem C14_lex : forall toks lay,
  forallb tok_wfb toks = true -> separable toks lay = true -> lex_query (render toks lay) = Some toks.
Proof. exact lex_render. Qed.
Print Assumptions C14_lex.

(* ... hence are both accepted or both rejected, with identical results and rows, on any graph *)
Theorem C14_layout : forall toks lay1 lay2 g,
  forallb tok_wfb toks = true -> separable toks lay1 = true -> separable toks lay2 = true ->
  process_query (render toks lay1) g = process_query (render toks lay2) g.
Proof. exact process_layout. Qed.
Print Assumptions C14_layout.

(* and a valid query stays valid under every such re-layout *)
Theorem C14_stays_valid : forall q lay g,
  aquery_wfb q = true -> separable (tokens_of_query q) lay = true ->
  process_query (render (tokens_of_query q) lay) g =
  Answer {| a_results := results (flatten_query q) g;
            a_rows := List.map (row (flatten_query q)) (results (flatten_query q) g) |}.
Proof. exact process_rendered. Qed.
Print Assumptions C14_stays_valid.
