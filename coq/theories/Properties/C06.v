(* C06 — call, expression and statement attributes mirror the source.  Same scheme as C05. *)
From CPF Require Import Base.Bytes Scan.Cst Scan.Build Scan.Decode Scan.DecodeFacts gen.Tables.
Open Scope bs_scope.

(* the 19 Java binary operators map to the documented operator-specific kinds (finite statement over
   the operator table the translator regenerates from construct.go on every run) *)
Theorem C06_operator_kinds :
  List.map (fun op => binop_kind op)
       ["+"; "-"; "*"; "/"; ">"; "<"; ">="; "<="; "%"; ">>"; "<<"; "!="; "=="; "&"; "&&"; "||"; "|"; ">>>"; "^"]
     = [Some "add_expression"; Some "sub_expression"; Some "mul_expression"; Some "div_expression";
        Some "comp_expression"; Some "comp_expression"; Some "comp_expression"; Some "comp_expression";
        Some "rem_expression"; Some "right_shift_expression"; Some "left_shift_expression";
        Some "ne_expression"; Some "eq_expression"; Some "bitwise_and_expression";
        Some "and_expression"; Some "or_expression"; Some "bitwise_or_expression";
        Some "bitwise_right_shift_expression"; Some "bitwise_xor_expression"].
Proof. exact (proj2 (proj2 binop_kind_table)). Qed.
Print Assumptions C06_operator_kinds.

Theorem C06_binary : forall src file prev n,
  binary_shape n = true ->
  exists es, entities_of src file prev n = Ok es
    /\ List.map n_type es = binary_kinds n
    /\ Forall (fun e => n_bin e = binary_spec src n) es
    /\ (length es = 2 \/ length es = 1).
Proof. exact binary_decoded. Qed.
Print Assumptions C06_binary.

Theorem C06_call : forall src file prev n,
  call_shape n = true -> call_side src n = true ->
  exists e, entities_of src file prev n = Ok [e]
    /\ n_type e = "method_invocation"
    /\ n_name e = call_name_spec src n
    /\ n_argv e = call_args_spec src n.
Proof. exact call_decoded. Qed.
Print Assumptions C06_call.

Theorem C06_new : forall src file prev n,
  new_shape n = true ->
  exists e, entities_of src file prev n = Ok [e]
    /\ n_type e = "ClassInstanceExpr"
    /\ n_name e = fst (new_spec src n)
    /\ n_new e = Some (new_spec src n).
Proof. exact new_decoded. Qed.
Print Assumptions C06_new.

(* control statements: the entity carries exactly the specified parts *)
Theorem C06_if : forall src file prev n, if_shape n = true ->
  entities_of src file prev n = Ok [stmt_entity "ifstmt" "IfStmt" src n file (if_spec src n)].
Proof. exact if_decoded. Qed.
Print Assumptions C06_if.
Theorem C06_while : forall src file prev n, while_shape n = true ->
  entities_of src file prev n = Ok [stmt_entity "while_stmt" "WhileStmt" src n file (while_spec src n)].
Proof. exact while_decoded. Qed.
Print Assumptions C06_while.
Theorem C06_for : forall src file prev n, for_shape n = true ->
  entities_of src file prev n = Ok [stmt_entity "for_stmt" "ForStmt" src n file (for_spec src n)].
Proof. exact for_decoded. Qed.
Print Assumptions C06_for.
Theorem C06_break : forall src file prev n, break_shape n = true ->
  entities_of src file prev n = Ok [stmt_entity "breakstmt" "BreakStmt" src n file (break_spec src n)].
Proof. exact break_decoded. Qed.
Print Assumptions C06_break.
Theorem C06_continue : forall src file prev n, continue_shape n = true ->
  entities_of src file prev n = Ok [stmt_entity "continuestmt" "ContinueStmt" src n file (continue_spec src n)].
Proof. exact continue_decoded. Qed.
Print Assumptions C06_continue.
Theorem C06_yield : forall src file prev n, yield_shape n = true ->
  entities_of src file prev n = Ok [stmt_entity "yield" "YieldStmt" src n file (yield_spec src n)].
Proof. exact yield_decoded. Qed.
Print Assumptions C06_yield.
Theorem C06_assert : forall src file prev n, assert_shape n = true ->
  entities_of src file prev n = Ok [stmt_entity "assert" "AssertStmt" src n file (assert_spec src n)].
Proof. exact assert_decoded. Qed.
Print Assumptions C06_assert.
Theorem C06_return : forall src file prev n, return_shape n = true ->
  entities_of src file prev n = Ok [stmt_entity "return" "ReturnStmt" src n file (return_spec src n)].
Proof. exact return_decoded. Qed.
Print Assumptions C06_return.
Theorem C06_do : forall src file prev n, do_shape n = true ->
  entities_of src file prev n = Ok [stmt_entity "dowhile_stmt" "DoStmt" src n file (do_spec src n)]
  /\ exists c, child_by_field n "condition" = Some c /\ do_spec src n = SDo (Some (content src c)).
Proof. exact do_decoded. Qed.
Print Assumptions C06_do.

(* a block's stored statement list is the source's statements in order, wrapped in the two brace
   tokens — the pinned defect D29 (known finding), stated exactly *)
Theorem C06_block_known_finding : forall src file prev n,
  block_shape n = true -> block_braces src n = true ->
  entities_of src file prev n = Ok [stmt_entity "block" "BlockStmt" src n file (block_spec src n)]
  /\ block_spec src n = SBlock (["{"] ++ List.map (content src) (named_parts n) ++ ["}"]).
Proof. exact block_stmts_with_braces. Qed.
Print Assumptions C06_block_known_finding.
