(* C15 — output rows line up with results; JSON is a well-formed document that preserves text. *)
From CPF Require Import Base.Json Base.JsonFacts Engine.Query Engine.Process Engine.ProcessFacts.

(* one row per reported combination, one value per SELECT item, in SELECT order, each computed
   on that combination's own entities ([row q t] only reads [tuple_env q t]) *)
Theorem C15_rows_aligned : forall s g a,
  process_query s g = Answer a ->
  length (a_rows a) = length (a_results a)
  /\ exists q, a_rows a = List.map (row q) (a_results a)
            /\ forall t, length (row q t) = length (q_select q).
Proof.
  intros s g a H. unfold process_query in H. destruct (parse_query s) as [aq|]; [|discriminate].
  injection H as <-. cbn [a_rows a_results]. split; [apply map_length|].
  exists (flatten_query aq). split; [reflexivity|]. intro t. unfold row. apply map_length.
Qed.
Print Assumptions C15_rows_aligned.

(* a literal SELECT item is reported verbatim (its two delimiters removed, inner quotes kept) *)
Theorem C15_literal : forall env tok,
  sel_value env (SelStr tok) = Some (VS (trim_suffix """"%bs (trim_prefix """"%bs tok))).
Proof. reflexivity. Qed.
Print Assumptions C15_literal.

(* Go's json.Marshal output decodes back to the same value for arbitrary valid UTF-8 text: quotes,
   backslashes, control characters, <>&, U+2028/9 in snippets cannot break the document *)
Theorem C15_json_wellformed : forall v, wf_json v = true -> decode (encode v) = Some v.
Proof. exact decode_encode. Qed.
Print Assumptions C15_json_wellformed.

Theorem C15_json_indent_wellformed : forall v, wf_json v = true -> decode (encode_indent v) = Some v.
Proof. exact decode_encode_indent. Qed.
Print Assumptions C15_json_indent_wellformed.
