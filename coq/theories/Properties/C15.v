(* C15 — output rows line up with results; JSON is a well-formed document that preserves text. *)
From CPF Require Import Base.Json Base.JsonFacts Engine.Query Engine.Process Engine.ProcessFacts Engine.Render Engine.RenderFacts.

(* one row per reported combination, one value per SELECT item, in SELECT order, each computed
   on that combination's own entities ([row q t] only reads [tuple_env q t]) *)
Theorem C15_rows_aligned : forall s g a,
  process_query s g = Answer a ->
  length (a_rows a) = length (a_results a)
  /\ exists q, a_rows a = List.map (row q) (a_results a)
            /\ forall t, length (row q t) = length (q_select q).
Proof.
  intros s g a H. unfold process_query in H. destruct (parse_query s) as [aq|]; [|discriminate].
  injection H as <-. cbn [a_rows a_results]. split; [apply map_length|].
  exists (flatten_query aq). split; [reflexivity|]. intro t. unfold row. apply map_length.
Qed.
Print Assumptions C15_rows_aligned.

(* a literal SELECT item is reported verbatim (its two delimiters removed, inner quotes kept) *)
Theorem C15_literal : forall env tok,
  sel_value env (SelStr tok) = Some (VS (trim_suffix """"%bs (trim_prefix """"%bs tok))).
Proof. reflexivity. Qed.
Print Assumptions C15_literal.

(* Go's json.Marshal output decodes back to the same value for arbitrary valid UTF-8 text: quotes,
   backslashes, control characters, <>&, U+2028/9 in snippets cannot break the document *)
Theorem C15_json_wellformed : forall v, wf_json v = true -> decode (encode v) = Some v.
Proof. exact decode_encode. Qed.
Print Assumptions C15_json_wellformed.

Theorem C15_json_indent_wellformed : forall v, wf_json v = true -> decode (encode_indent v) = Some v.
Proof. exact decode_encode_indent. Qed.
Print Assumptions C15_json_indent_wellformed.

(* the JSON document cmd.processQuery returns (Engine/Render.v, compared byte for byte with the real one) is
   ONE document: it decodes to the structure it was built from, whose result_set lists the locations of the
   reported combinations in order ... *)
Theorem C15_json_document : forall rs rows b jr,
  render_json rs rows = Some b -> json_rows rows = Some jr -> wf_json (json_answer rs jr) = true ->
  decode b = Some (json_answer rs jr) /\ json_locations (json_answer rs jr) = Some (locations rs).
Proof. exact render_json_decodes. Qed.
Print Assumptions C15_json_document.

(* ... and the text report is a sequence of blocks, one per entity of every reported combination in the same
   order, each starting with the header that shows that entity's file and line: text mode and JSON mode
   describe the same locations (output-file and verbose change where the string goes, not the string) *)
Theorem C15_same_locations : forall rs tr, length rs = length tr ->
  exists blocks, text_answer rs tr = concat blocks /\ Forall2 starts_with_header blocks (locations rs).
Proof. exact text_answer_blocks. Qed.
Print Assumptions C15_same_locations.
