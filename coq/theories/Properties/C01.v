(* C01 — no missed matches: every combination satisfying WHERE is reported.
   Specification: [spec_results] — conditions are boolean combinations of atoms and predicate
   calls, a call evaluates the predicate's body with its formals bound to what the arguments denote
   (the entity of an alias, the value of a string / number literal).
   Implementation model: [results] — candidates are the cross product of the entities of each
   FROM kind (no narrowing), the condition is the predicate-expanded expression ([inline], whose
   text [emit] is compared byte for byte with parser.ExpandedCondition), evaluated by the
   expr-lang model. *)
From CPF Require Import Engine.Query Engine.QueryFacts.

(* expansion by substitution implements call-by-binding, for any nesting depth of connectives,
   any number of declarations, any graph: per tuple ... *)
Theorem C01_accepts_what_spec_accepts : forall q t,
  wf_query q = true -> spec_accepted q t <> Unknown -> static_ok q t ->
  accepted q t = spec_accepted q t.
Proof. exact accepted_refines_spec. Qed.
Print Assumptions C01_accepts_what_spec_accepts.

(* ... hence every combination of entities of the requested kinds (in the graph, in FROM order)
   that makes WHERE true is reported *)
Theorem C01_complete : forall q g t,
  wf_query q = true ->
  (forall t, In t (candidates q g) -> spec_accepted q t <> Unknown /\ static_ok q t) ->
  Forall2 (fun n ka => n_type n = fst ka /\ In n g) t (q_from q) ->
  spec_accepted q t = Accept ->
  In t (results q g).
Proof.
  intros q g t Hwf Hfrag Hcand Hacc.
  apply candidates_iff in Hcand. apply results_complete; [exact Hcand|].
  destruct (Hfrag t Hcand) as [Hu Hs]. rewrite (accepted_refines_spec q t Hwf Hu Hs). exact Hacc.
Qed.
Print Assumptions C01_complete.

(* the text handed to the evaluator is the print of the expanded AST the model evaluates *)
Theorem C01_condition_text : forall q,
  expanded_condition q = match condition q with Some c => join " "%bs (xprint c) | None => [] end.
Proof. exact expanded_condition_inline. Qed.
Print Assumptions C01_condition_text.
