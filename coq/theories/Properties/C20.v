(* C20 — hosted ruleset bundles round-trip the rules directory. *)
From CPF Require Import Base.Bytes Base.Json Base.JsonFacts Cli.Ci Cli.CiFacts.
Open Scope bs_scope.

(* bundling a flat directory with gen-script (json.MarshalIndent) and loading the bundle the way
   `ci --ruleset cpf/<name>` does yields exactly the rule texts loading the directory yields: same
   list, byte-identical, for any names and any valid-UTF-8 contents *)
Theorem C20_roundtrip : forall dirname entries,
  valid_utf8b dirname = true ->
  (forall n c, In (n, c) entries -> valid_utf8b n = true /\ valid_utf8b c = true) ->
  forall body, produce dirname entries = Some body -> consume body = Some (load_local entries).
Proof. exact bundle_roundtrip. Qed.
Print Assumptions C20_roundtrip.

(* the two selection predicates agree: filepath.Ext(n) == ".cql" (bundler) iff HasSuffix(n, ".cql") (loader) *)
Theorem C20_selection_agrees : forall n,
  bytes_eqb (path_ext n) ".cql" = true <-> has_suffix ".cql" n = true.
Proof. exact ext_iff_suffix. Qed.
Print Assumptions C20_selection_agrees.

(* a directory without .cql files yields no bundle at all (outside the round trip's domain) *)
Theorem C20_no_bundle : forall d es,
  produce d es = None <-> (forall n c, In (n, c) es -> is_cql n = false).
Proof. exact produce_none_iff. Qed.
Print Assumptions C20_no_bundle.
