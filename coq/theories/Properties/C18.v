(* C18 — a rule file means the same query and metadata on every path.
   Cli/Rules.v transcribes cmd.ParseQuery / cmd.ParseCommentLine / cmd.ExtractQueryFromFile and is
   compared byte for byte with them on every generated rule file and the shipped rules. *)
From CPF Require Import Base.Bytes Lang.Lexer Lang.LexerFacts Cli.Rules Cli.RulesFacts.
Open Scope bs_scope.

(* metadata: whatever the order and subset of header fields, unknown keys ignored, LF or CRLF *)
Theorem C18_metadata : forall eol fields qt,
  eol_ok eol -> forallb field_okb fields = true ->
  starts_query (hd [] (split_on nl qt)) = true ->
  let r := parse_ci (render_rule eol fields qt) in
  r_id r = last_value "@id" fields []
  /\ r_desc r = last_value "@description" fields []
  /\ r_severity r = last_value "@problem.severity" fields []
  /\ r_impact r = last_value "@security-severity" fields []
  /\ r_provider r = last_value "@ruleprovider" fields [].
Proof. exact parse_ci_metadata. Qed.
Print Assumptions C18_metadata.

(* the query: ci, scan/--query-file and the text as written lex to the same tokens, for any wrapping
   at token boundaries and any indentation, LF or CRLF, provided no token spans lines *)
Theorem C18_same_tokens : forall eol fields toks lay,
  eol_ok eol -> forallb field_nl_okb fields = true ->
  forallb tok_wfb toks = true -> single_line_toks toks = true ->
  starts_with_from toks = true -> is_tin (last toks TFrom) = false ->
  first_empty lay = true -> separable toks lay = true ->
  no_comment_open (render toks lay) = true ->
  let text := render_rule eol fields (render toks lay) in
  lex_query (r_query (parse_ci text)) = Some toks
  /\ lex_query (extract_file text) = Some toks
  /\ lex_query (render toks lay) = Some toks.
Proof. exact same_tokens. Qed.
Print Assumptions C18_same_tokens.

(* the full statement is false for a STRING token that spans lines (known finding D32): the line
   break becomes a space, and under CRLF the two extractors even disagree *)
Theorem C18_multiline_string_refuted :
  lex_query (r_query (parse_ci (ml_rule [nl]))) <> lex_query (ml_query [nl]).
Proof. exact (proj1 (proj2 (proj2 (proj2 multiline_string_changes)))). Qed.
Print Assumptions C18_multiline_string_refuted.
