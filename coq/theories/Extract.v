(* Extraction of the executable model for the correspondence harness.
   ExtrOcamlBasic only (bool, option, unit, list, prod, sumbool, sumor); N, Z, nat, byte stay
   extracted datatypes; no Extract Constant of ours. *)
Require Extraction.
Require ExtrOcamlBasic.
From CPF Require Import Base.Bytes Scan.Cst Scan.Build.
Extraction Language OCaml.
Extraction "model.ml" build_file census cst_wfb cst_size.
