(* Extraction of the executable model for the correspondence harness.
   ExtrOcamlBasic only (bool, option, unit, list, prod, sumbool, sumor); N, Z, nat, byte stay
   extracted datatypes; no Extract Constant of ours. *)
Require Extraction.
Require ExtrOcamlBasic.
From CPF.gen Require Import Tables.
From CPF Require Import Base.Bytes Scan.Cst Scan.Build Scan.Decode Scan.Merge Scan.Pool Scan.SkelSem Scan.SkelAbs Lang.Lexer Lang.Ast Lang.Parser Engine.Eval Engine.Query Engine.QueryFacts Engine.Process Engine.Render Cli.Rules Cli.Ci.
Definition decode_node := CPF.Scan.Decode.decode.
Extraction Language OCaml.
Extraction "model.ml" build_file census cst_wfb cst_size shape_okb
  lex_query parse_tokens parse_query flatten_query tokens_of_query
  expanded_condition condition results spec_results wf_query in_fragment row collect get_files process_query console_session render_json render_text text_rows text_tuple
  pool_program sk_init sk_steps finished s_panic abs flags_agree enabled_steps init
  decode_node shape_of content parse_ci extract_file ci_run ci_sarif produce consume load_local.
